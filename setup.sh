#!/bin/sh
# Build the fact extractor and warm the dependency metadata used by `cargo +nightly check` (offline).
set -e
cd "$(dirname "$0")"
export CARGO_NET_OFFLINE=true
(cd engine/driver && cargo +nightly build --release --offline)
python3 engine/lib/facts.py
