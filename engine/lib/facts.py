"""Obtain the MIR fact file for /repo's *current working tree*.

The facts are produced by the rustc_private driver (engine/driver) injected with
RUSTC_WORKSPACE_WRAPPER under `cargo +nightly check --offline --lib`.  They are cached by a
content hash of everything that can influence them, so any edit of /repo forces a new driver
run: a check always decides the tree it is given.
"""
import fcntl
import glob
import hashlib
import json
import os
import pickle
import subprocess
import sys
import time

VERIF = os.path.dirname(os.path.dirname(os.path.dirname(os.path.abspath(__file__))))
REPO = os.environ.get("DISCRET_REPO", "/repo")
CACHE = os.path.join(VERIF, ".cache")
DRIVER_DIR = os.path.join(VERIF, "engine", "driver")
DRIVER = os.path.join(DRIVER_DIR, "target", "release", "discret-facts")


class NoVerdict(Exception):
    """The tree could not be analysed (does not compile, driver missing): exit status 2."""


def _nightly_sysroot():
    return subprocess.check_output(["rustc", "+nightly", "--print", "sysroot"], text=True).strip()


def build_driver():
    env = dict(os.environ, CARGO_NET_OFFLINE="true")
    r = subprocess.run(
        ["cargo", "+nightly", "build", "--release", "--offline"],
        cwd=DRIVER_DIR, env=env, stdout=subprocess.PIPE, stderr=subprocess.STDOUT, text=True,
    )
    if r.returncode != 0 or not os.path.exists(DRIVER):
        raise NoVerdict("cannot build the fact extractor:\n" + r.stdout[-4000:])


def source_files(repo=None):
    repo = repo or REPO
    files = []
    for root, dirs, names in os.walk(os.path.join(repo, "src")):
        dirs.sort()
        for n in sorted(names):
            files.append(os.path.join(root, n))
    for n in ("Cargo.toml", "Cargo.lock"):
        p = os.path.join(repo, n)
        if os.path.exists(p):
            files.append(p)
    return files


def tree_key(features="", repo=None):
    h = hashlib.sha256()
    repo = repo or REPO
    for f in source_files(repo):
        h.update(os.path.relpath(f, repo).encode())
        h.update(b"\0")
        with open(f, "rb") as fh:
            h.update(fh.read())
        h.update(b"\0")
    with open(DRIVER, "rb") as fh:
        h.update(hashlib.sha256(fh.read()).digest())
    h.update(features.encode())
    return h.hexdigest()[:24]


def lane_target(lane):
    """a private copy of the warm dependency build for a parallel lane of the self-test (cargo locks a target directory)"""
    base = os.path.join(CACHE, "target")
    t = os.path.join(CACHE, "target-lane%d" % lane)
    if not os.path.isdir(t) and os.path.isdir(base):
        subprocess.run(["cp", "-a", base, t + ".tmp%d" % os.getpid()])
        try:
            os.rename(t + ".tmp%d" % os.getpid(), t)
        except OSError:
            subprocess.run(["rm", "-rf", t + ".tmp%d" % os.getpid()])
    return t


def _run_driver(out_json, features, repo=None, target=None):
    repo = repo or REPO
    target = target or os.path.join(CACHE, "target")
    os.makedirs(target, exist_ok=True)
    # defeat cargo's freshness cache for the member crate: the wrapper must run
    for fp in glob.glob(os.path.join(target, "debug", ".fingerprint", "discret-*")):
        subprocess.run(["rm", "-rf", fp])
    env = dict(os.environ)
    env.pop("RUSTFLAGS", None)
    env.update(
        LD_LIBRARY_PATH=_nightly_sysroot() + "/lib:" + env.get("LD_LIBRARY_PATH", ""),
        RUSTC_WORKSPACE_WRAPPER=DRIVER,
        DISCRET_FACTS_OUT=out_json,
        CARGO_TARGET_DIR=target,
        CARGO_NET_OFFLINE="true",
    )
    cmd = ["cargo", "+nightly", "check", "--offline", "--lib"]
    if features:
        cmd += ["--features", features]
    if os.path.exists(out_json):
        os.unlink(out_json)
    r = subprocess.run(cmd, cwd=repo, env=env, stdout=subprocess.PIPE, stderr=subprocess.STDOUT, text=True)
    if r.returncode != 0:
        raise NoVerdict("the working tree of %s does not compile (no verdict):\n%s" % (repo, r.stdout[-6000:]))
    if not os.path.exists(out_json):
        raise NoVerdict("the fact extractor did not run (cargo skipped the wrapper?):\n" + r.stdout[-2000:])


def scramble_locals(data):
    """robustness self-test: rename every user local / parameter / captured variable (except `self`) of every body.
    A rule that still decides the same way does not depend on the spelling of a local name."""
    import hashlib

    def f(name):
        if name in ("self", "_") or not name:
            return name
        return "q" + hashlib.md5(name.encode()).hexdigest()[:7]

    def walk(x):
        if isinstance(x, list):
            for i, y in enumerate(x):
                if isinstance(y, str):
                    if y.startswith(".^"):
                        x[i] = ".^" + f(y[2:])
                else:
                    walk(y)
        elif isinstance(x, dict):
            for k, y in x.items():
                if isinstance(y, str):
                    if y.startswith(".^"):
                        x[k] = ".^" + f(y[2:])
                else:
                    walk(y)
    for b in data["bodies"]:
        b["vars"] = [[f(n), pl] for n, pl in b["vars"]]
        walk(b["blocks"])
        walk(b["vars"])


def load(features="", repo=None, quiet=False, lane=None):
    """Return (facts dict, info dict).  Runs the driver when the tree changed."""
    t0 = time.time()
    if not os.path.exists(DRIVER):
        build_driver()
    os.makedirs(os.path.join(CACHE, "facts"), exist_ok=True)
    key = tree_key(features, repo)
    base = os.path.join(CACHE, "facts", key)
    pk = base + ".pickle"
    lockp = os.path.join(CACHE, "facts", "lock" if lane is None else "lock-lane%d" % lane)
    ran = False
    with open(lockp, "w") as lock:
        fcntl.flock(lock, fcntl.LOCK_EX)
        try:
            if not os.path.exists(pk):
                js = base + ".json"
                _run_driver(js, features, repo, lane_target(lane) if lane is not None else None)
                with open(js) as fh:
                    data = json.load(fh)
                if data.get("crate") != "discret" or not data.get("bodies"):
                    raise NoVerdict("fact file does not describe crate discret")
                if not any(b["span"][0].endswith("src/discret.rs") or b["span"][0].endswith("src/lib.rs") for b in data["bodies"]):
                    raise NoVerdict("fact file does not contain bodies of src/lib.rs / src/discret.rs")
                with open(pk + ".tmp", "wb") as fh:
                    pickle.dump(data, fh, protocol=pickle.HIGHEST_PROTOCOL)
                os.rename(pk + ".tmp", pk)
                os.unlink(js)
                ran = True
                # keep the cache small: drop old fact files (never a recent one: parallel lanes of the self-test read theirs
                # right after writing it, under their own lock)
                olds = sorted(glob.glob(os.path.join(CACHE, "facts", "*.pickle")), key=lambda f: os.path.getmtime(f) if os.path.exists(f) else 0)
                now_ = time.time()
                for o in olds[:-24]:
                    try:
                        if now_ - os.path.getmtime(o) > 1800:
                            os.unlink(o)
                    except OSError:
                        pass
            # read under the lock: a parallel lane pruning the cache must not remove the file in between
            with open(pk, "rb") as fh:
                data = pickle.load(fh)
            os.utime(pk)
        finally:
            fcntl.flock(lock, fcntl.LOCK_UN)
    data["repo_root"] = repo or REPO      # rules that read non-Rust sources (grammars) or attribute text read them from the analysed tree
    if os.environ.get("DISCRET_SCRAMBLE_LOCALS"):
        scramble_locals(data)
    info = {"key": key, "driver_ran": ran, "load_s": round(time.time() - t0, 2), "features": features,
            "bodies": len(data["bodies"]), "repo": repo or REPO}
    if not quiet:
        print("facts: key=%s bodies=%d driver_ran=%s (%.1fs)" % (key, len(data["bodies"]), ran, time.time() - t0), file=sys.stderr)
    return data, info


if __name__ == "__main__":
    feats = sys.argv[1] if len(sys.argv) > 1 else ""
    try:
        d, info = load(feats)
    except NoVerdict as e:
        print(e)
        sys.exit(2)
    print(info)
