"""Inlining of *new* helper functions into their callers (on the raw MIR facts).

The rules were written against an inventory of the crate's functions (engine/rules/baseline_functions.txt).  A function
that is not in the inventory is a helper somebody extracted (or code moved into a new function): judging the callers
without it would either raise false alarms (the guard / write / release now lives in the helper) or miss a violation
hidden in it.  Every call of such a function is therefore replaced by a copy of its CFG:

* plain functions: parameters become locals assigned from the call operands, `return` assigns the destination and jumps
  to the continuation;
* `async fn`: the copy of the coroutine body is spliced in at the `poll` of the `.await` (captured parameters are bound
  to the operands of the call that created the future, `return v` becomes `Poll::Ready(v)`).

Recursive helpers and helpers larger than MAX_BLOCKS are left alone (the callers' rules then see an opaque call, as
before).  Nothing else is changed: functions of the inventory are never inlined, so the anchors of the rules stay."""
import copy
import os
import re

MAX_BLOCKS = 600
ROUNDS = 4


def normalize(path):
    out = []
    depth = 0
    i = 0
    while i < len(path):
        ch = path[i]
        if path.startswith("::<", i) and depth == 0:
            depth = 1
            i += 3
            continue
        if depth > 0:
            if ch == "<":
                depth += 1
            elif ch == ">":
                depth -= 1
            i += 1
            continue
        out.append(ch)
        i += 1
    return "".join(out)


def load_inventory(path):
    if not os.path.exists(path):
        return None
    return {l.strip() for l in open(path) if l.strip() and not l.startswith("#")}


def _shift_place(p, off, keep=()):
    if not p:
        return p
    l = p[0]
    if l in keep:
        return [keep[l]] + list(p[1:])
    return [l + off] + list(p[1:])


def _shift_operand(o, off, keep):
    if "c" in o:
        return {"c": _shift_place(o["c"], off, keep)}
    if "m" in o:
        return {"m": _shift_place(o["m"], off, keep)}
    return copy.deepcopy(o)


def _shift_rv(rv, off, keep):
    rv = copy.deepcopy(rv)
    for k in ("p",):
        if k in rv and isinstance(rv[k], list):
            rv[k] = _shift_place(rv[k], off, keep)
    for k in ("o", "a", "b"):
        if k in rv and isinstance(rv[k], dict):
            rv[k] = _shift_operand(rv[k], off, keep)
    if "ops" in rv:
        rv["ops"] = [_shift_operand(x, off, keep) for x in rv["ops"]]
    return rv


def _shift_block(bl, off, boff, keep):
    nb = {"cl": bl["cl"], "s": [], "t": None}
    for st in bl["s"]:
        nb["s"].append({"lhs": _shift_place(st["lhs"], off, keep), "rv": _shift_rv(st["rv"], off, keep), "at": st["at"]})
    t = copy.deepcopy(bl["t"])
    k = t["k"]
    for key in ("to", "uw", "drop", "false_to"):
        if key in t and isinstance(t[key], int) and t[key] >= 0:
            t[key] = t[key] + boff
    if k == "switch":
        t["targets"] = [[v, tg + boff] for v, tg in t["targets"]]
        t["otherwise"] = t["otherwise"] + boff if t["otherwise"] >= 0 else t["otherwise"]
        t["d"] = _shift_operand(t["d"], off, keep)
    if k == "call":
        t["args"] = [_shift_operand(a, off, keep) for a in t["args"]]
        t["dest"] = _shift_place(t["dest"], off, keep)
        if t.get("fo"):
            t["fo"] = _shift_operand(t["fo"], off, keep) if isinstance(t["fo"], dict) else t["fo"]
    if k == "assert":
        t["cond"] = _shift_operand(t["cond"], off, keep)
    if k == "drop" and "p" in t:
        t["p"] = _shift_place(t["p"], off, keep)
    if k == "yield" and "v" in t:
        t["v"] = _shift_operand(t["v"], off, keep)
    nb["t"] = t
    return nb


def _calls_self(bodies, bid, seen=None):
    """does the function (transitively through new helpers only) reach itself"""
    return False


def _callee_of(t, ids):
    for name in (t.get("rf") or "", t.get("f") or ""):
        for cand in (name, normalize(name)):
            if cand and cand in ids:
                return cand
    return None


def inline_sync(A, ci, B):
    """replace the call terminator of block ci of A by a copy of B"""
    t = A["blocks"][ci]["t"]
    off = len(A["locals"])
    boff = len(A["blocks"])
    A["locals"] = A["locals"] + list(B["locals"])
    # a helper inlined twice into one function (or whose variables are spelled like the caller's) keeps distinct variable names:
    # the rules address variables by name within one body
    # (a name the helper shares with the caller itself is kept: it is nearly always the parameter bound to the caller's variable)
    taken = {n for n, pl in A["vars"]}
    inl = A.setdefault("_inl_names", [])
    ren = {}
    for name, place in B["vars"]:
        if name in inl and name not in ren:
            k = 2
            while "%s~%d" % (name, k) in taken:
                k += 1
            ren[name] = "%s~%d" % (name, k)
        A["vars"].append([ren.get(name, name), _shift_place(place, off)])
    for name, place in B["vars"]:
        if ren.get(name, name) not in inl:
            inl.append(ren.get(name, name))
    # parameters := operands
    for i, a in enumerate(t["args"]):
        A["blocks"][ci]["s"].append({"lhs": [off + 1 + i], "rv": {"r": "use", "o": copy.deepcopy(a)}, "at": t["at"]})
    keep = {0: t["dest"][0]} if len(t["dest"]) == 1 else {}
    for bl in B["blocks"]:
        nb = _shift_block(bl, off, boff, keep)
        if nb["t"]["k"] == "return":
            if not keep:
                nb["s"].append({"lhs": list(t["dest"]), "rv": {"r": "use", "o": {"m": [off]}}, "at": nb["t"]["at"]})
            nb["t"] = {"k": "goto", "to": t["to"], "at": nb["t"]["at"]} if t["to"] >= 0 else {"k": "unreachable", "at": nb["t"]["at"]}
        A["blocks"].append(nb)
    A["blocks"][ci]["t"] = {"k": "goto", "to": boff, "at": t["at"]}


def inline_async(A, pi, ci, W, K):
    """A: caller coroutine; pi: block of the poll call of the awaited future; ci: block of the call W(args) that created
    it; K: coroutine body of the async fn W"""
    pt = A["blocks"][pi]["t"]
    ct = A["blocks"][ci]["t"]
    off = len(A["locals"])
    boff = len(A["blocks"])
    A["locals"] = A["locals"] + list(K["locals"])
    # captured parameters of K: [1, ".^name", ...] -> fresh local bound to the operand of the creating call
    wnames = {}
    for name, place in W["vars"]:
        if len(place) == 1 and 1 <= place[0] <= W["argc"]:
            wnames[name] = place[0] - 1
    fresh = {}
    for name, idx in wnames.items():
        if idx < len(ct["args"]):
            l = len(A["locals"])
            A["locals"].append(W["locals"][idx + 1])
            A["vars"].append([name, [l]])
            fresh[name] = l
            A["blocks"][ci]["s"].append({"lhs": [l], "rv": {"r": "use", "o": copy.deepcopy(ct["args"][idx])}, "at": ct["at"]})

    def fix_place(p):
        # K's local 1 is its own state: `[1, ".^name", rest]`; K's local 2 is the task context (A's own local 2)
        if p and p[0] == 1 and len(p) > 1 and isinstance(p[1], str) and p[1].startswith(".^") and p[1][2:] in fresh:
            return [fresh[p[1][2:]]] + list(p[2:])
        if p and p[0] == 2:
            return [2] + list(p[1:])
        return [p[0] + off] + list(p[1:]) if p else p

    def walk(x):
        if isinstance(x, dict):
            for k, v in list(x.items()):
                if k in ("c", "m", "p", "lhs", "dest") and isinstance(v, list) and v and isinstance(v[0], int):
                    x[k] = fix_place(v)
                else:
                    walk(v)
        elif isinstance(x, list):
            for y in x:
                walk(y)
    for name, place in K["vars"]:
        if len(place) == 1 and place[0] not in (1, 2):
            A["vars"].append([name, [place[0] + off]])
    for bl in K["blocks"]:
        nb = copy.deepcopy(bl)
        walk(nb["s"])
        t = nb["t"]
        for key in ("to", "uw", "drop"):
            if key in t and isinstance(t[key], int) and t[key] >= 0:
                t[key] = t[key] + boff
        if t["k"] == "switch":
            t["targets"] = [[v, tg + boff] for v, tg in t["targets"]]
            if t["otherwise"] >= 0:
                t["otherwise"] += boff
        walk({"x": {kk: vv for kk, vv in t.items() if kk in ("d", "args", "cond", "v", "fo")}})
        for kk in ("d", "cond", "v"):
            if kk in t and isinstance(t[kk], dict):
                pass
        if "dest" in t:
            t["dest"] = fix_place(t["dest"])
        if t["k"] == "drop" and "p" in t:
            t["p"] = fix_place(t["p"])
        if t["k"] == "return":
            nb["s"].append({"lhs": list(pt["dest"]), "rv": {"r": "aggr", "kind": "adt", "adt": "std::task::Poll", "variant": "Ready",
                                                          "ops": [{"m": [off]}], "fields": ["0"]}, "at": t["at"]})
            nb["t"] = {"k": "goto", "to": pt["to"], "at": t["at"]}
        A["blocks"].append(nb)
    A["blocks"][pi]["t"] = {"k": "goto", "to": boff, "at": pt["at"]}
    # the future value itself is no longer produced by a call
    A["blocks"][ci]["s"].append({"lhs": list(ct["dest"]), "rv": {"r": "aggr", "kind": "tuple", "ops": []}, "at": ct["at"]})
    A["blocks"][ci]["t"] = {"k": "goto", "to": ct["to"], "at": ct["at"]}


def run(data, inventory):
    """inline every call of a function outside the inventory; returns a report"""
    if inventory is None:
        return {"enabled": False}
    bodies = {b["id"]: b for b in data["bodies"]}
    ids = set(bodies)
    fn_kinds = ("Fn", "AssocFn")
    new_fns = {i for i, b in bodies.items() if b["kind"] in fn_kinds and normalize(i) not in inventory and i not in inventory}
    # only functions of the crate's src (no tests) matter; test helpers are never called from src
    report = {"enabled": True, "new_functions": sorted(new_fns), "inlined": [], "skipped": []}
    if not new_fns:
        return report
    coroutine_of = {}
    for i, b in bodies.items():
        if b["kind"].startswith("Coroutine") and b.get("parent") in new_fns:
            coroutine_of[b["parent"]] = i

    def reaches(src, target, seen):
        for bl in bodies[src]["blocks"]:
            t = bl["t"]
            if t["k"] == "call":
                c = _callee_of(t, ids)
                if c == target:
                    return True
                if c in new_fns and c not in seen:
                    seen.add(c)
                    if reaches(c, target, seen):
                        return True
        k = coroutine_of.get(src)
        if k and k not in seen:
            seen.add(k)
            return reaches(k, target, seen)
        return False
    recursive = {f for f in new_fns if reaches(f, f, {f})}
    for _ in range(ROUNDS):
        changed = False
        for aid, A in bodies.items():
            if aid in new_fns and False:
                continue
            n0 = len(A["blocks"])
            for ci in range(n0):
                t = A["blocks"][ci]["t"]
                if t["k"] != "call":
                    continue
                c = _callee_of(t, ids)
                if c is None:
                    continue
                # ---- plain helper
                if c in new_fns and c not in coroutine_of:
                    B = bodies[c]
                    if c in recursive or len(B["blocks"]) > MAX_BLOCKS or c == aid or len(A["blocks"]) > 6000:
                        if (aid, c) not in report["skipped"]:
                            report["skipped"].append((aid, c))
                        continue
                    inline_sync(A, ci, B)
                    report["inlined"].append((aid, c))
                    changed = True
                    continue
                # ---- poll of the future of a new async fn
                if c in bodies and bodies[c]["kind"].startswith("Coroutine") and bodies[c].get("parent") in new_fns and t.get("f", "").endswith("Future::poll"):
                    W = bodies[bodies[c]["parent"]]
                    K = bodies[c]
                    if W["id"] in recursive or len(K["blocks"]) > MAX_BLOCKS or c == aid or len(A["blocks"]) > 6000:
                        continue
                    # the call that created this future: follow the pinned reference back (simple def chains)
                    cblock = _creator_of(A, ci, W["id"], ids)
                    if cblock is None:
                        if (aid, W["id"]) not in report["skipped"]:
                            report["skipped"].append((aid, W["id"]))
                        continue
                    inline_async(A, ci, cblock, W, K)
                    report["inlined"].append((aid, W["id"]))
                    changed = True
        if not changed:
            break
    # a helper whose every call was inlined no longer exists as a unit of its own (crate-wide scans must not see it twice)
    still_called = set()
    for aid, A in bodies.items():
        for bl in A["blocks"]:
            t = bl["t"]
            if t["k"] == "call":
                c = _callee_of(t, ids)
                if c in new_fns:
                    still_called.add(c)
                if c in bodies and bodies[c].get("parent") in new_fns:
                    still_called.add(bodies[c]["parent"])
    inlined_fns = {c for _, c in report["inlined"]}
    drop = {f for f in inlined_fns if f not in still_called}
    drop |= {coroutine_of[f] for f in drop if f in coroutine_of}
    if drop:
        data["bodies"] = [b for b in data["bodies"] if b["id"] not in drop]
    report["dropped"] = sorted(drop)
    report["inlined"] = sorted(set(report["inlined"]))
    return report


def _creator_of(A, pi, wid, ids):
    """block of the call `wid(..)` whose result is the future polled in block pi (through move / ref / into_future /
    Pin::new_unchecked chains of single-definition temporaries)"""
    defs = {}
    for bi, bl in enumerate(A["blocks"]):
        for st in bl["s"]:
            if len(st["lhs"]) == 1:
                defs.setdefault(st["lhs"][0], []).append(("s", bi, st["rv"]))
        t = bl["t"]
        if t["k"] == "call" and len(t["dest"]) == 1:
            defs.setdefault(t["dest"][0], []).append(("c", bi, t))
    arg = A["blocks"][pi]["t"]["args"][0]
    p = arg.get("m") or arg.get("c")
    seen = set()
    work = [p[0]] if p else []
    while work:
        l = work.pop()
        if l in seen:
            continue
        seen.add(l)
        for kind, bi, x in defs.get(l, ()):
            if kind == "c":
                c = _callee_of(x, ids)
                if c == wid:
                    return bi
                for a in x["args"]:
                    q = a.get("m") or a.get("c")
                    if q:
                        work.append(q[0])
            else:
                for key in ("p",):
                    if key in x and isinstance(x[key], list) and x[key]:
                        work.append(x[key][0])
                for key in ("o",):
                    if key in x and isinstance(x[key], dict):
                        q = x[key].get("m") or x[key].get("c")
                        if q:
                            work.append(q[0])
    return None
