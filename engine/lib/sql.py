"""SQL statement texts and format! templates recovered from MIR terms."""
import re
import mir

PREPARE = r"rusqlite::(cache::)?(Connection::)?(prepare|prepare_cached|execute|execute_batch|query_row|query_row_and_then)$"


def decode_template(b):
    """fmt::Arguments template bytes -> [('lit', text) | ('hole', arg_index)] (rust-src core/src/fmt/mod.rs)"""
    out = []
    i = 0
    nxt = 0
    while i < len(b):
        n = b[i]
        i += 1
        if n == 0:
            break
        if n < 0x80:
            out.append(("lit", b[i:i + n].decode("utf-8", "replace")))
            i += n
        elif n == 0x80:
            ln = b[i] | (b[i + 1] << 8)
            i += 2
            out.append(("lit", b[i:i + ln].decode("utf-8", "replace")))
            i += ln
        elif n == 0xC0:
            out.append(("hole", nxt))
            nxt += 1
        else:
            idx = nxt
            if n & 1:
                i += 4
            if n & 2:
                i += 2
            if n & 4:
                i += 2
            if n & 8:
                idx = b[i] | (b[i + 1] << 8)
                i += 2
            out.append(("hole", idx))
            nxt = idx + 1
    return out


def _unwrap_string(t):
    """look through &, *, String::deref, must_use, as_str ... down to the producing call"""
    while True:
        k = t[0]
        if k in ("ref", "deref", "cast"):
            t = t[1]
        elif k == "call" and t[2] and (t[1].endswith("std::hint::must_use") or t[1].endswith("Deref>::deref")
                                        or t[1].endswith("::as_str") or t[1].endswith("Clone>::clone") or t[1].endswith("::as_ref")
                                        or t[1].endswith("::to_string") or t[1].endswith("::to_owned") or t[1].endswith("String::from")
                                        or t[1].endswith("From<&str>>::from") or t[1].endswith("::into")):
            t = t[2][0]
        else:
            return t


def format_parts(t):
    """term of a String produced by format!/format_args! -> [('lit', text) | ('hole', arg term, how)] or None"""
    t = _unwrap_string(t)
    if t[0] == "call" and (t[1].endswith("fmt::format") or t[1].endswith("fmt::format::format_inner")):
        t = t[2][0]
    t = _unwrap_string(t)
    if t[0] != "call":
        return None
    if "fmt::Arguments" in t[1] and t[1].endswith("::from_str"):
        a = _unwrap_string(t[2][0])
        if a[0] == "const" and isinstance(a[1], str):
            return [("lit", a[1])]
        return None
    if not ("fmt::Arguments" in t[1] and t[1].endswith("::new")):
        return None
    tpl = _unwrap_string(t[2][0])
    if tpl[0] != "const" or not isinstance(tpl[1], (bytes, bytearray)):
        return None
    args = t[2][1]
    while args[0] in ("ref", "deref", "cast"):
        args = args[1]
    arg_terms = []
    if args[0] == "aggr":
        for a in args[4]:
            how = ""
            if a[0] == "call":
                how = a[1].rsplit("::", 1)[-1]
                if len(a) > 4 and a[4]:
                    how += ":" + a[4]     # generic argument = type of the formatted value
                a = a[2][0] if a[2] else ("unknown",)
            while a[0] in ("ref", "deref"):
                a = a[1]
            arg_terms.append((a, how))
    parts = []
    for kind, v in decode_template(tpl[1]):
        if kind == "lit":
            parts.append(("lit", v))
        else:
            if v < len(arg_terms):
                parts.append(("hole", arg_terms[v][0], arg_terms[v][1]))
            else:
                parts.append(("hole", ("unknown",), ""))
    return parts


STATICS = {}


def text_of(t):
    """(text with {n} for holes, [hole terms]) for a statement-text term, or (None, [])"""
    u = _unwrap_string(t)
    if u[0] == "const" and isinstance(u[1], str):
        return u[1], []
    if u[0] == "const" and str(u[3]).startswith("static:") and isinstance(STATICS.get(u[3]), str):
        return STATICS[u[3]], []
    parts = format_parts(t)
    if parts is None:
        return None, []
    out = ""
    holes = []
    for p in parts:
        if p[0] == "lit":
            out += p[1]
        else:
            out += "{%d}" % len(holes)
            holes.append(p[1])
    return out, holes


def statements(body):
    """[(block, callee, text or None, hole terms, sql term)] for each prepare/execute site of a body"""
    out = []
    for bi, t in body.calls_to(PREPARE):
        args = body.call_args(bi, expand_vars=True)
        if len(args) < 2:
            continue
        text, holes = text_of(args[1])
        out.append((bi, mir.callee_name(t), text, holes, args[1]))
    return out


def norm(text):
    return re.sub(r"\s+", " ", text or "").strip()
