"""CFG / dataflow primitives over the MIR facts.

Terms (symbolic expressions reconstructed from MIR temporaries) are nested tuples:
  ('var', name)                  user variable (named local)
  ('param', name_or_index)       function parameter
  ('upvar', name)                captured variable of a closure / coroutine
  ('local', n)                   unnamed local whose definition is not unique / unknown
  ('const', value, type, name)   literal or named constant (name = def path when named)
  ('fn', path)                   function item
  ('field', base, name)          projection .name
  ('deref', base) ('ref', base) ('index', base) ('downcast', base, variant)
  ('call', callee, [args], block)  callee = resolved path when available
  ('aggr', kind, adt, variant, [ops], [field names])
  ('bin', op, a, b) ('un', op, a) ('cast', a, ty) ('discr', base, adt)
  ('phi', [terms])               several reaching definitions
  ('unknown',)
"""
import os
import re
from collections import defaultdict, deque

MAX_DEPTH = 40


class Program:
    def __init__(self, facts):
        self.facts = facts
        self.bodies = {}
        # helpers that are not part of the reviewed function inventory are inlined into their callers (see inline.py)
        if not facts.get("_inlined"):
            import inline as _inline
            inv = _inline.load_inventory(os.path.join(os.path.dirname(os.path.abspath(__file__)), "..", "rules", "baseline_functions.txt"))
            facts["_inline_report"] = _inline.run(facts, inv)
            facts["_inlined"] = True
        self.inline_report = facts.get("_inline_report", {})
        for b in facts["bodies"]:
            self.bodies[b["id"]] = Body(self, b)
        self.adts = {a["path"]: a for a in facts["adts"]}
        self.consts = {c["path"]: c for c in facts["consts"]}
        try:
            import sql as _sql
            _sql.STATICS.clear()
            _sql.STATICS.update({p: c["v"] for p, c in self.consts.items() if p.startswith("static:")})
        except ImportError:
            pass
        self.impls = facts["impls"]
        self._callers = None
        self._children = defaultdict(list)
        for b in self.bodies.values():
            if b.kind.startswith("Closure") or b.kind.startswith("Coroutine"):
                self._children[b.parent].append(b.id)
        # the closures written in a helper that was analysed inlined belong to the family of the function it was inlined into
        # (the closure aggregates are now built in that function's blocks)
        for _ in range(3):
            for aid, c in self.inline_report.get("inlined", ()):
                for owner in [c] + [k for k in list(self._children.get(c, ())) if k in self.bodies and self.bodies[k].kind.startswith("Coroutine")]:
                    for k in list(self._children.get(owner, ())):
                        if k in self.bodies and self.bodies[k].kind.startswith("Closure") and k not in self._children[aid] and aid in self.bodies:
                            self._children[aid].append(k)
        # trait method -> impl methods (for dyn dispatch)
        self.trait_impls = defaultdict(list)
        for im in self.impls:
            if im["trait"]:
                for it in im["items"]:
                    name = it.rsplit("::", 1)[-1]
                    self.trait_impls[im["trait"] + "::" + name].append(it)

    # ------------------------------------------------------------ lookup
    def body(self, suffix, required=True):
        """Find the unique body whose id equals `suffix` or ends with '::'+suffix."""
        if suffix in self.bodies:
            return self.bodies[suffix]
        c = [b for i, b in self.bodies.items() if i.endswith("::" + suffix)]
        if len(c) == 1:
            return c[0]
        if required:
            raise MissingAnchor("function %s: %d candidates" % (suffix, len(c)))
        return None

    def find(self, regex):
        r = re.compile(regex)
        return [b for i, b in self.bodies.items() if r.search(i)]

    def children(self, body_id):
        return self._children.get(body_id, [])

    def family(self, body_id):
        """body + all nested closures/coroutines (the code written inside one fn item)."""
        out = [body_id]
        for c in self.children(body_id):
            out += self.family(c)
        return out

    def in_file(self, file_suffix):
        return [b for b in self.bodies.values() if b.file.endswith(file_suffix)]

    # ------------------------------------------------------------ call graph
    def callees_of(self, body):
        """set of body ids directly reachable from `body`: calls, closures created, dyn impls."""
        out = set()
        for bi, t in body.calls():
            for name in (t["rf"], t["f"], normalize(t["rf"]), normalize(t["f"])):
                if not name:
                    continue
                if name in self.bodies:
                    out.add(name)
                for im in self.trait_impls.get(name, ()):  # unresolved trait method: every impl
                    if not t["rf"] and im in self.bodies:
                        out.add(im)
        for c in self.children(body.id):
            out.add(c)
        return out

    def callgraph(self):
        if self._callers is None:
            self._callees = {i: self.callees_of(b) for i, b in self.bodies.items()}
            self._callers = defaultdict(set)
            for i, cs in self._callees.items():
                for c in cs:
                    self._callers[c].add(i)
        return self._callees, self._callers

    def reachable_from(self, roots):
        callees, _ = self.callgraph()
        seen = set()
        dq = deque(roots)
        while dq:
            x = dq.popleft()
            if x in seen:
                continue
            seen.add(x)
            dq.extend(callees.get(x, ()))
        return seen

    def call_sites(self, callee_regex, in_bodies=None):
        """[(body, block index, terminator)] of every call whose resolved or declared callee matches."""
        r = re.compile(callee_regex)
        out = []
        for b in (in_bodies if in_bodies is not None else self.bodies.values()):
            for bi, t in b.calls():
                callee_name(t)
                if r.search(t["nrf"]) or r.search(t["nf"]):
                    out.append((b, bi, t))
        return out

    def owner_fn(self, body_id):
        """the enclosing fn item of a closure/coroutine body"""
        b = self.bodies.get(body_id)
        while b is not None and (b.kind.startswith("Closure") or b.kind.startswith("Coroutine")):
            nb = self.bodies.get(b.parent)
            if nb is None:
                break
            b = nb
        return b.id if b else body_id


class MissingAnchor(Exception):
    pass


def normalize(path):
    """drop generic argument lists `::<...>` (kept: the leading `<T as Trait>` of impl paths)"""
    out = []
    i = 0
    n = len(path)
    while i < n:
        if path.startswith("::<", i):
            depth = 0
            j = i + 2
            while j < n:
                if path[j] == "<":
                    depth += 1
                elif path[j] == ">" and path[j - 1] != "-":
                    depth -= 1
                    if depth == 0:
                        break
                j += 1
            i = j + 1
            continue
        out.append(path[i])
        i += 1
    return "".join(out)


def callee_name(t):
    """normalised resolved callee when the compiler resolved it, else the declared callee"""
    if "nn" not in t:
        t["nf"] = normalize(t["f"])
        t["nrf"] = normalize(t["rf"]) if t["rf"] else ""
        t["nn"] = t["nrf"] or t["nf"]
    return t["nn"]


def short(path):
    """last two segments of a path, generics removed"""
    p = re.sub(r"<[^<>]*>", "", path)
    p = re.sub(r"<[^<>]*>", "", p)
    parts = [x for x in p.split("::") if x]
    return "::".join(parts[-2:])


class Body:
    def __init__(self, prog, raw):
        self.prog = prog
        self.raw = raw
        self.id = raw["id"]
        self.kind = raw["kind"]
        self.parent = raw["parent"]
        self.file = raw["span"][0]
        self.line = raw["span"][1]
        self.end_line = raw["end_line"]
        self.from_expansion = bool(raw["span"][2])
        self.argc = raw["argc"]
        self.blocks = raw["blocks"]
        self.locals = raw["locals"]
        self.n = len(self.blocks)
        self.names = {}       # local -> user name (plain locals only)
        self.upvar_names = {}
        for name, place in raw["vars"]:
            if len(place) == 1:
                self.names.setdefault(place[0], name)
        self._succ = None
        self._pred = None
        self._dom = None
        self._defs = None
        self._reach_cache = {}
        # `args` bindings introduced by format_args!/panic! expansions are temporaries, not user variables
        for l in [l for l, n in self.names.items() if n == "args"]:
            ds = self.defs().get(l, ())
            if ds and all(("m:" in (self.blocks[bi]["s"][si]["at"][1] if si is not None else self.blocks[bi]["t"]["at"][1])) for (bi, si, rv, lhs) in ds):
                del self.names[l]

    def __repr__(self):
        return "<Body %s>" % self.id

    # ------------------------------------------------------------ locations
    def loc(self, bi=None, si=None):
        if bi is None:
            return "%s:%d" % (self.file, self.line)
        if si is None:
            at = self.blocks[bi]["t"]["at"]
        else:
            at = self.blocks[bi]["s"][si]["at"]
        return "%s:%d" % (self.file, at[0])

    def line_of(self, bi):
        return self.blocks[bi]["t"]["at"][0]

    def expn(self, bi):
        return self.blocks[bi]["t"]["at"][1]

    # ------------------------------------------------------------ CFG
    def succ(self, bi, unwind=False):
        t = self.blocks[bi]["t"]
        k = t["k"]
        out = []
        if k == "goto":
            out = [t["to"]]
        elif k == "switch":
            out = [x[1] for x in t["targets"]] + [t["otherwise"]]
        elif k in ("call", "drop", "assert", "yield"):
            if t["to"] >= 0:
                out = [t["to"]]
            if unwind and t.get("uw", -1) >= 0:
                out.append(t["uw"])
        res = []
        for x in out:
            if x not in res:
                res.append(x)
        return res

    def _jump_threads(self):
        """Boolean temporaries (lowering of matches!, &&, ||): a block that stores a constant into local L and
        then reaches, through empty gotos, a block that only switches on L (or on !L computed in that block) is
        given the resolved switch target as its successor.  This removes the infeasible paths a path-insensitive
        reading of `let m = matches!(..); if !m {..}` would report."""
        threads = {}
        # enum temporaries built and matched at once (`Poll::Ready(v)` produced by an inlined async helper and tested by the
        # await loop): a block whose last statement stores variant V into L and then reaches `d = discr(L); switch d`
        for s in range(self.n):
            bl = self.blocks[s]
            t = bl["t"]
            if t["k"] != "switch" or len(bl["s"]) != 1:
                continue
            st0 = bl["s"][0]
            rv0 = st0["rv"]
            dpl = t["d"].get("c") or t["d"].get("m")
            if rv0["r"] != "discr" or dpl != st0["lhs"] or len(rv0["p"]) != 1:
                continue
            L = rv0["p"][0]
            table = {name: idx for idx, name in rv0.get("vars", [])}
            for x in range(self.n):
                bx = self.blocks[x]
                if not bx["s"] or bx["t"]["k"] != "goto":
                    continue
                last = bx["s"][-1]
                if last["lhs"] != [L] or last["rv"]["r"] != "aggr" or last["rv"].get("variant") not in table:
                    continue
                y = x
                okc = False
                for _ in range(6):
                    nx = self.blocks[y]["t"].get("to", -1) if self.blocks[y]["t"]["k"] == "goto" else -1
                    if nx == s:
                        okc = True
                        break
                    if nx < 0 or self.blocks[nx]["s"]:
                        break
                    y = nx
                if not okc:
                    continue
                idx = table[last["rv"]["variant"]]
                tgt = None
                for tv, tg in t["targets"]:
                    if tv == idx:
                        tgt = tg
                threads[x] = tgt if tgt is not None else t["otherwise"]
        for s in range(self.n):
            bl = self.blocks[s]
            t = bl["t"]
            if t["k"] != "switch":
                continue
            d = t["d"]
            p = d.get("c") or d.get("m")
            if p is None or len(p) != 1:
                continue
            loc = p[0]
            neg = False
            stm = bl["s"]
            if len(stm) > 1:
                continue
            if len(stm) == 1:
                st = stm[0]
                rv = st["rv"]
                if st["lhs"] == [loc] and rv["r"] == "un" and rv["op"] == "Not":
                    q = rv["o"].get("c") or rv["o"].get("m")
                    if q is None or len(q) != 1:
                        continue
                    loc = q[0]
                    neg = True
                else:
                    continue
            if loc in self.names:
                continue
            defs = self.defs().get(loc, ())
            if not defs or any(si is None for (_, si, _, _) in defs):
                continue
            consts = {}
            good = True
            for (bi, si, rv, lhs) in defs:
                if lhs != [loc] or rv["r"] != "use" or "k" not in rv["o"] or rv["o"]["k"].get("v") not in (True, False):
                    good = False
                    break
                if si != len(self.blocks[bi]["s"]) - 1:
                    good = False
                    break
                consts[bi] = rv["o"]["k"]["v"]
            if not good:
                continue
            for bi, val in consts.items():
                # follow empty gotos from bi to s
                x = bi
                okc = False
                for _ in range(6):
                    tt = self.blocks[x]["t"]
                    if tt["k"] != "goto":
                        break
                    nx = tt["to"]
                    if nx == s:
                        okc = True
                        break
                    if self.blocks[nx]["s"]:
                        break
                    x = nx
                if not okc:
                    continue
                v = (not val) if neg else val
                target = None
                for tv, tg in t["targets"]:
                    if tv == (1 if v else 0):
                        target = tg
                if target is None:
                    target = t["otherwise"]
                threads[bi] = target
        return threads

    def succs(self):
        if self._succ is None:
            self._succ = [self.succ(i) for i in range(self.n)]
            for bi, tg in self._jump_threads().items():
                self._succ[bi] = [tg]
            self._pred = [[] for _ in range(self.n)]
            for i, ss in enumerate(self._succ):
                for s in ss:
                    self._pred[s].append(i)
        return self._succ

    def preds(self):
        self.succs()
        return self._pred

    # ------------------------------------------------------------ path-sensitive reachability (known enum variants)
    TRACK_ADTS = ("std::result::Result", "std::option::Option", "std::ops::ControlFlow", "std::task::Poll")

    def _ps_info(self):
        """Which locals are worth tracking: a `switch` on `discr(L)` (or on a bool L) can be resolved along a path when L was
        assigned a constant variant (`L = Err(e)`, `L = Poll::Ready(v)`, `L = true`) on that path, possibly through moves and
        `Try::branch`.  This is what makes `helper(..)?` transparent after the helper was inlined.  Returns the set of
        tracked locals (empty for almost every body: then the plain reachability is used)."""
        if getattr(self, "_ps", None) is not None:
            return self._ps
        defs = self.defs()
        tracked = set()
        for sb in range(self.n):
            t = self.blocks[sb]["t"]
            if t["k"] != "switch":
                continue
            dpl = t["d"].get("c") or t["d"].get("m")
            if not dpl or len(dpl) != 1:
                continue
            roots = [dpl[0]]
            for st in self.blocks[sb]["s"]:
                if st["lhs"] == dpl and st["rv"]["r"] == "discr" and len(st["rv"]["p"]) >= 1:
                    roots.append(st["rv"]["p"][0])
            sl = set()
            work = list(roots)
            const = False
            n = 0
            while work and n < 60:
                n += 1
                l = work.pop()
                if l in sl:
                    continue
                sl.add(l)
                for (bi, si, rv, lhs) in defs.get(l, ()):
                    if len(lhs) != 1:
                        continue
                    if si is None:
                        if callee_name(rv).endswith("::from_residual"):
                            const = True     # `?` error exit: always the Err / None variant
                        if callee_name(rv).endswith("Try>::branch") and rv["args"]:
                            q = rv["args"][0].get("m") or rv["args"][0].get("c")
                            if q and len(q) == 1:
                                work.append(q[0])
                        continue
                    r = rv["r"]
                    if r == "aggr" and rv.get("kind") == "adt" and rv.get("adt") in self.TRACK_ADTS:
                        const = True
                    elif r == "use":
                        o = rv["o"]
                        if "k" in o and o["k"].get("v") in (True, False) and o["k"].get("ty") == "bool":
                            const = True
                        q = o.get("m") or o.get("c")
                        if q and len(q) == 1:
                            work.append(q[0])
                    elif r == "discr" and len(rv["p"]) == 1:
                        work.append(rv["p"][0])
                    elif r == "un" and rv["op"] == "Not":
                        q = rv["o"].get("m") or rv["o"].get("c")
                        if q and len(q) == 1:
                            work.append(q[0])
            if const:
                tracked |= sl
        # the existing threading of bool temporaries already covers unnamed bool flags; keep tracking to what it cannot do
        self._ps = tracked
        return tracked

    def _ps_step(self, x, state):
        """successors of block x under `state` (dict local -> known value) : [(succ, new state)]"""
        T = self._ps_info()
        st = dict(state)
        bl = self.blocks[x]
        for s_ in bl["s"]:
            lhs = s_["lhs"]
            l = lhs[0]
            rv = s_["rv"]
            if len(lhs) != 1:
                if l in st:
                    del st[l]
                continue
            val = None
            r = rv["r"]
            if l in T:
                if r == "aggr" and rv.get("kind") == "adt" and rv.get("adt") in self.TRACK_ADTS:
                    val = ("v", rv.get("variant"))
                elif r == "use":
                    o = rv["o"]
                    if "k" in o and o["k"].get("v") in (True, False) and o["k"].get("ty") == "bool":
                        val = ("b", o["k"]["v"])
                    else:
                        q = o.get("m") or o.get("c")
                        if q and len(q) == 1 and q[0] in st:
                            val = st[q[0]]
                elif r == "discr" and len(rv["p"]) == 1 and rv["p"][0] in st and st[rv["p"][0]][0] == "v":
                    table = {name: idx for idx, name in rv.get("vars", [])}
                    if st[rv["p"][0]][1] in table:
                        val = ("i", table[st[rv["p"][0]][1]])
                elif r == "un" and rv["op"] == "Not":
                    q = rv["o"].get("m") or rv["o"].get("c")
                    if q and len(q) == 1 and q[0] in st and st[q[0]][0] == "b":
                        val = ("b", not st[q[0]][1])
            # a moved-out or mutably borrowed tracked local is forgotten
            if r == "use" and "m" in rv["o"] and len(rv["o"]["m"]) == 1 and rv["o"]["m"][0] in st and rv["o"]["m"][0] != l:
                del st[rv["o"]["m"][0]]
            if r in ("ref", "rawptr") and rv.get("mut") and rv["p"] and rv["p"][0] in st:
                del st[rv["p"][0]]
            if val is not None:
                st[l] = val
            elif l in st:
                del st[l]
        t = bl["t"]
        k = t["k"]
        if k == "call":
            d = t["dest"]
            val = None
            if len(d) == 1 and d[0] in T and callee_name(t).endswith("Try>::branch") and t["args"]:
                q = t["args"][0].get("m") or t["args"][0].get("c")
                if q and len(q) == 1 and q[0] in st and st[q[0]][0] == "v":
                    val = ("v", {"Ok": "Continue", "Some": "Continue", "Err": "Break", "None": "Break"}.get(st[q[0]][1]))
                    if val[1] is None:
                        val = None
            if len(d) == 1 and d[0] in T and callee_name(t).endswith("::from_residual"):
                ty = self.locals[d[0]] if d[0] < len(self.locals) else ""
                if ty.startswith("std::result::Result<"):
                    val = ("v", "Err")
                elif ty.startswith("std::option::Option<"):
                    val = ("v", "None")
            for a in t["args"]:
                q = a.get("m")
                if q and len(q) == 1 and q[0] in st:
                    del st[q[0]]
            if d and d[0] in st:
                del st[d[0]]
            if val is not None:
                st[d[0]] = val
        if k == "switch":
            dpl = t["d"].get("c") or t["d"].get("m")
            if dpl and len(dpl) == 1 and dpl[0] in st:
                v = st[dpl[0]]
                want = v[1] if v[0] == "i" else (1 if v[1] else 0) if v[0] == "b" else None
                if want is not None:
                    tgt = None
                    for tv, tg in t["targets"]:
                        if tv == want:
                            tgt = tg
                    return [(tgt if tgt is not None else t["otherwise"], st)]
        return [(s2, st) for s2 in self.succs()[x]]

    def _reachable_ps(self, start, avoid_blocks, avoid_edges):
        seen = set()
        out = set()
        work = [(start, ())]
        per_block = defaultdict(int)
        while work:
            x, stt = work.pop()
            if (x, stt) in seen:
                continue
            seen.add((x, stt))
            out.add(x)
            per_block[x] += 1
            st = dict(stt)
            if per_block[x] > 24:
                st = {}          # too many distinct states at one block: stop distinguishing (sound: more paths)
            for s2, ns in self._ps_step(x, st):
                if s2 is None or s2 < 0 or s2 in avoid_blocks or (x, s2) in avoid_edges:
                    continue
                key = tuple(sorted(ns.items()))
                if (s2, key) not in seen:
                    work.append((s2, key))
        return out

    def reachable(self, start=0, avoid_blocks=(), avoid_edges=()):
        """blocks reachable from `start` (normal edges) without entering avoid_blocks / using avoid_edges.  When the body
        assigns constant enum variants that are matched later (see _ps_info) the walk is path-sensitive for those locals."""
        succ = self.succs()
        avoid_blocks = set(avoid_blocks)
        avoid_edges = set(avoid_edges)
        if start in avoid_blocks:
            return set()
        if self._ps_info():
            ck = ("ps", start, frozenset(avoid_blocks), frozenset(avoid_edges))
            if ck not in self._reach_cache:
                self._reach_cache[ck] = self._reachable_ps(start, avoid_blocks, avoid_edges)
            return set(self._reach_cache[ck])
        seen = {start}
        dq = deque([start])
        while dq:
            x = dq.popleft()
            for s in succ[x]:
                if s in seen or s in avoid_blocks or (x, s) in avoid_edges:
                    continue
                seen.add(s)
                dq.append(s)
        return seen

    def reach_after(self, bi, avoid_blocks=(), avoid_edges=()):
        """blocks reachable strictly after block bi's terminator"""
        out = set()
        for s in self.succs()[bi]:
            if (bi, s) in set(avoid_edges):
                continue
            out |= self.reachable(s, avoid_blocks, avoid_edges)
        return out

    def live_blocks(self):
        key = "live"
        if key not in self._reach_cache:
            self._reach_cache[key] = self.reachable(0)
        return self._reach_cache[key]

    def dominators(self):
        """immediate-dominator based dominator sets over normal edges (Cooper-Harvey-Kennedy)."""
        if self._dom is not None:
            return self._dom
        succ = self.succs()
        order = []
        seen = set()
        stack = [(0, iter(succ[0]))]
        seen.add(0)
        while stack:
            node, it = stack[-1]
            adv = False
            for s in it:
                if s not in seen:
                    seen.add(s)
                    stack.append((s, iter(succ[s])))
                    adv = True
                    break
            if not adv:
                order.append(node)
                stack.pop()
        rpo = list(reversed(order))
        idx = {b: i for i, b in enumerate(rpo)}
        idom = {0: 0}
        pred = self.preds()
        changed = True
        while changed:
            changed = False
            for b in rpo[1:]:
                new = None
                for p in pred[b]:
                    if p in idom:
                        if new is None:
                            new = p
                        else:
                            f1, f2 = p, new
                            while f1 != f2:
                                while idx[f1] > idx[f2]:
                                    f1 = idom[f1]
                                while idx[f2] > idx[f1]:
                                    f2 = idom[f2]
                            new = f1
                if new is not None and idom.get(b) != new:
                    idom[b] = new
                    changed = True
        self._idom = idom
        self._dom = idom
        return idom

    def dominates(self, a, b):
        """block a dominates block b (a == b counts)"""
        idom = self.dominators()
        if b not in idom:
            return False
        x = b
        while True:
            if x == a:
                return True
            if x == 0:
                break
            x = idom[x]
        # not a dominator of the plain CFG: it may still be one once infeasible paths are discarded
        if self._ps_info() and b in self.live_blocks():
            return b not in self.reachable(0, avoid_blocks={a})
        return False

    def dom_chain(self, b):
        idom = self.dominators()
        out = []
        if b not in idom:
            return out
        x = b
        while True:
            out.append(x)
            if x == 0:
                break
            x = idom[x]
        return out

    def exits(self):
        live = self.live_blocks()
        return [i for i in live if self.blocks[i]["t"]["k"] == "return"]

    def reachable_flag(self, start, flag_local, value=None, avoid_blocks=()):
        """blocks reachable from `start` when the boolean local `flag_local` is tracked along the path
        (constant stores update it, `switchInt(flag)` follows only the matching edge when it is known)"""
        avoid_blocks = set(avoid_blocks)
        seen = set()
        work = [(start, value)]
        out = set()
        while work:
            b, v = work.pop()
            if (b, v) in seen or b in avoid_blocks:
                continue
            seen.add((b, v))
            out.add(b)
            bl = self.blocks[b]
            for st in bl["s"]:
                if st["lhs"] == [flag_local]:
                    rv = st["rv"]
                    if rv["r"] == "use" and "k" in rv["o"] and rv["o"]["k"].get("v") in (True, False):
                        v = rv["o"]["k"]["v"]
                    else:
                        v = None
            t = bl["t"]
            if t["k"] == "call" and t["dest"] == [flag_local]:
                v = None
            if t["k"] == "switch":
                p = t["d"].get("c") or t["d"].get("m")
                neg = False
                if p is not None and len(p) == 1 and p != [flag_local]:
                    for st in bl["s"]:
                        rv = st["rv"]
                        if st["lhs"] == p and rv["r"] == "use" and (rv["o"].get("c") or rv["o"].get("m")) == [flag_local]:
                            p = [flag_local]
                        elif st["lhs"] == p and rv["r"] == "un" and rv["op"] == "Not" and (rv["o"].get("c") or rv["o"].get("m")) == [flag_local]:
                            p = [flag_local]
                            neg = True
                if p == [flag_local] and v is not None:
                    if neg:
                        v_eff = not v
                    else:
                        v_eff = v
                    tg = None
                    for tv, tt in t["targets"]:
                        if tv == (1 if v_eff else 0):
                            tg = tt
                    work.append((tg if tg is not None else t["otherwise"], v))
                    continue
            for s in self.succs()[b]:
                work.append((s, v))
        return out

    def must_pass(self, start, through, targets, after=True):
        """every path from (after) `start` to any block in `targets` passes a block in `through`"""
        through = set(through)
        r = self.reach_after(start, avoid_blocks=through) if after else self.reachable(start, avoid_blocks=through)
        return not (r & set(targets))

    # ------------------------------------------------------------ calls
    def calls(self):
        for i, bl in enumerate(self.blocks):
            if bl["t"]["k"] == "call":
                yield i, bl["t"]

    def live_calls(self, awaits=False):
        """calls on live non-cleanup blocks; the poll/into_future machinery of `.await` is skipped"""
        live = self.live_blocks()
        for i, t in self.calls():
            if i in live and not self.blocks[i]["cl"]:
                if not awaits and "d:Await" in t["at"][1]:
                    continue
                yield i, t

    def calls_incl_closures(self, depth=2):
        """live calls of the body and of the closures it hands to a call (`iter.try_for_each(|x| x.write(conn))`): yields
        (block of this body, terminator, owning body, block in the owning body).  A call made inside such a closure is attributed
        to the block of this body that consumes the closure, so that rules scanning an arm see the calls the arm makes through
        iterator adaptors."""
        for bi, t in self.live_calls():
            yield bi, t, self, bi
            if depth <= 0:
                continue
            for a in self.call_args(bi, expand_vars=True):
                for sx in subterms(a):
                    if sx[0] == "aggr" and sx[1] == "closure":
                        cb = self.prog.bodies.get(sx[2])
                        if cb is None:
                            continue
                        for cbi, ct, ob, obi in cb.calls_incl_closures(depth - 1):
                            yield bi, ct, ob, obi

    def type_of_root(self, t):
        """like root_type, and a captured variable has the type it has in the enclosing body"""
        u = t
        while u[0] in ("ref", "deref", "field", "cast", "downcast", "index"):
            u = u[1]
        if u[0] == "upvar":
            return self.upvar_type(u[1])
        return self.root_type(t)

    def calls_to(self, regex, live=True):
        r = re.compile(regex)
        out = []
        for i, t in (self.live_calls() if live else self.calls()):
            callee_name(t)
            if r.search(t["nrf"]) or r.search(t["nf"]):
                out.append((i, t))
        return out

    # ------------------------------------------------------------ definitions
    def defs(self):
        """local -> list of (block, stmt index or None for a call dest, rvalue-or-terminator, lhs place)"""
        if self._defs is None:
            d = defaultdict(list)
            for bi, bl in enumerate(self.blocks):
                for si, st in enumerate(bl["s"]):
                    d[st["lhs"][0]].append((bi, si, st["rv"], st["lhs"]))
                t = bl["t"]
                if t["k"] == "call":
                    d[t["dest"][0]].append((bi, None, t, t["dest"]))
                elif t["k"] == "yield":
                    pass
            self._defs = d
        return self._defs

    # ------------------------------------------------------------ terms
    def local_leaf(self, l):
        if l in self.names and not self.names[l].startswith("__"):
            if 1 <= l <= self.argc:
                return ("param", self.names[l], l)
            return ("var", self.names[l], l)
        if 1 <= l <= self.argc:
            return ("param", l, l)
        return None

    def place_term(self, place, depth=0, expand_vars=False, seen=None):
        l = place[0]
        base = self.local_term(l, depth, expand_vars, seen)
        return self._project(base, place[1:])

    def _project(self, base, proj):
        t = base
        for p in proj:
            if p == "*":
                if t[0] == "ref":
                    t = t[1]
                else:
                    t = ("deref", t)
            elif p.startswith(".^"):
                t = ("upvar", p[2:])
            elif p.startswith("."):
                name = p[1:]
                # projecting a field out of an aggregate we can see: take the operand
                if t[0] == "aggr" and t[5] and name in t[5]:
                    t = t[4][t[5].index(name)]
                elif t[0] == "aggr" and t[1] == "tuple" and name.isdigit() and int(name) < len(t[4]):
                    t = t[4][int(name)]
                else:
                    t = ("field", t, name)
            elif p.startswith("@"):
                t = ("downcast", t, p[1:])
            elif p.startswith("["):
                t = ("index", t)
            else:
                t = ("proj?", t)
        return t

    def local_term(self, l, depth=0, expand_vars=False, seen=None):
        leaf = self.local_leaf(l)
        if leaf is not None and not (expand_vars and leaf[0] == "var"):
            return leaf
        if depth > MAX_DEPTH:
            return ("local", l)
        seen = seen or frozenset()
        if l in seen:
            return leaf or ("local", l)
        seen = seen | {l}
        ds = [d for d in self.defs().get(l, ()) if len(d[3]) == 1 and not self.blocks[d[0]]["cl"]]
        partial = [d for d in self.defs().get(l, ()) if len(d[3]) > 1]
        if not ds:
            if l == 0:
                return ("local", 0)
            if l == 1 and (self.kind.startswith("Closure") or self.kind.startswith("Coroutine")):
                return ("param", "<env>")
            return leaf or ("local", l)
        terms = []
        for (bi, si, rv, lhs) in ds[:6]:
            terms.append(self.def_term(bi, si, rv, depth + 1, expand_vars, seen))
        if leaf is None:
            for (bi, si, rv, lhs) in partial[:4]:  # stores into parts of an unnamed temporary (vec!, struct update)
                if not self.blocks[bi]["cl"]:
                    terms.append(self.def_term(bi, si, rv, depth + 1, expand_vars, seen))
        if leaf is not None and leaf[0] == "var" and any(_is_loop_item(t) for t in terms):
            return leaf  # loop variables keep their name
        if len(terms) == 1 and not partial:
            return terms[0]
        uniq = []
        for t in terms:
            if t not in uniq:
                uniq.append(t)
        if len(uniq) == 1 and not partial:
            return uniq[0]
        return ("phi", uniq)

    def operand_term(self, op, depth=0, expand_vars=False, seen=None):
        if "k" in op:
            k = op["k"]
            if "fn" in k:
                return ("fn", k["fn"])
            v = k.get("v")
            if isinstance(v, dict) and "bytes" in v:
                v = bytes(v["bytes"])
            return ("const", v, k.get("ty", ""), k.get("n", ""))
        p = op.get("c") or op.get("m")
        if p is None:
            return ("unknown",)
        return self.place_term(p, depth, expand_vars, seen)

    def def_term(self, bi, si, rv, depth, expand_vars=False, seen=None):
        if si is None:  # call terminator
            t = rv
            args = [self.operand_term(a, depth + 1, expand_vars, seen) for a in t["args"]]
            if "d:Await" in t["at"][1]:
                cn = callee_name(t)
                if cn.endswith("::into_future") or cn.endswith("Pin::<Ptr>::new_unchecked") or cn.endswith("::new_unchecked"):
                    return args[0] if args else ("unknown",)
                if len(args) == 2 and not cn.endswith("get_context"):
                    a = args[0]
                    while a[0] in ("ref", "deref"):
                        a = a[1]
                    return ("await", a, bi)
            return ("call", callee_name(t), args, bi, t.get("ga", ""))
        r = rv["r"]
        if r == "use":
            return self.operand_term(rv["o"], depth, expand_vars, seen)
        if r == "ref":
            return ("ref", self.place_term(rv["p"], depth, expand_vars, seen))
        if r == "rawptr":
            return ("ref", self.place_term(rv["p"], depth, expand_vars, seen))
        if r == "cast":
            return ("cast", self.operand_term(rv["o"], depth, expand_vars, seen), rv["ty"])
        if r == "bin":
            return ("bin", rv["op"], self.operand_term(rv["a"], depth + 1, expand_vars, seen),
                    self.operand_term(rv["b"], depth + 1, expand_vars, seen))
        if r == "un":
            return ("un", rv["op"], self.operand_term(rv["o"], depth + 1, expand_vars, seen))
        if r == "discr":
            return ("discr", self.place_term(rv["p"], depth, expand_vars, seen), rv["adt"], tuple(tuple(x) for x in rv["vars"]))
        if r == "aggr":
            ops = [self.operand_term(o, depth + 1, expand_vars, seen) for o in rv["ops"]]
            kind = rv["kind"]
            if kind == "adt":
                return ("aggr", "adt", rv["adt"], rv["variant"], ops, rv["fields"])
            if kind in ("closure", "coroutine", "coroutine_closure"):
                return ("aggr", kind, rv["def"], "", ops, [])
            return ("aggr", kind, "", "", ops, [])
        if r == "repeat":
            return ("aggr", "repeat", "", "", [self.operand_term(rv["o"], depth + 1, expand_vars, seen)], [])
        return ("unknown",)

    def var_defs(self, t):
        """definitions (unexpanded terms) of a named variable / parameter term"""
        if t[0] not in ("var", "param") or len(t) < 3:
            return []
        return [self.def_term(bi, si, rv, 0) for (bi, si, rv, lhs) in self.defs().get(t[2], ()) if len(lhs) == 1 and not self.blocks[bi]["cl"]]

    # ------------------------------------------------------------ structural identification of locals
    def named_locals(self):
        """(local, name, type, leaf term) of every user variable and parameter"""
        out = []
        for l in range(1, len(self.locals)):
            leaf = self.local_leaf(l)
            if leaf is not None and isinstance(leaf[1], str):
                out.append((l, leaf[1], self.locals[l], leaf))
        return out

    def find_locals(self, ty=None, call=None, aggr=None, param=None, const=None, not_ty=None, pred=None, arg=None):
        """names of the user variables / parameters identified structurally (never by spelling):
        ty = regex on the declared type, call = regex of a callee in one of its definitions, aggr = regex of the ADT of an
        aggregate that defines it, param = True/False restricts to parameters / plain locals, const = a literal value assigned"""
        out = []
        for l, name, lty, leaf in self.named_locals():
            if param is not None and (leaf[0] == "param") != param:
                continue
            if arg is not None:
                # argument of the function: a MIR parameter, or (async fn / closure) a local moved out of the captured state
                ds0 = self.var_defs(leaf)
                is_arg = leaf[0] == "param" or (len(ds0) == 1 and strip(ds0[0])[0] == "upvar")
                if is_arg != arg:
                    continue
            if ty is not None and not re.search(ty, lty):
                continue
            if not_ty is not None and re.search(not_ty, lty):
                continue
            if call is not None or aggr is not None or const is not None or pred is not None:
                ds = self.var_defs(leaf)
                ok = False
                for d in ds:
                    if call is not None and has_call(d, call) is not None:
                        ok = True
                    if aggr is not None:
                        u = strip(d)
                        if u[0] == "aggr" and re.search(aggr, u[2] or ""):
                            ok = True
                    if const is not None:
                        u = strip(d)
                        if u[0] == "const" and u[1] == const:
                            ok = True
                    if pred is not None and pred(d):
                        ok = True
                if not ok:
                    continue
            if name not in out:
                out.append(name)
        return out

    def the_local(self, what, **spec):
        """the unique variable identified by `spec`; fails closed when none or several match"""
        c = self.find_locals(**spec)
        if len(c) != 1:
            raise MissingAnchor("%s: expected exactly one variable for %s (%s), found %s" % (short(self.id), what, spec_str(spec), c))
        return c[0]

    def upvar_type(self, name):
        """type of the captured variable `name`, looked up in the enclosing bodies (same source variable)"""
        b = self
        for _ in range(6):
            par = self.prog.bodies.get(b.parent) if b.parent else None
            if par is None:
                return ""
            tys = {lty for l, n, lty, leaf in par.named_locals() if n == name}
            if len(tys) == 1:
                return tys.pop()
            if len(tys) > 1:
                return ""
            b = par
        return ""

    def cpath(self, t, depth=0):
        """field path whose root is the *type* of the root variable, `‹Type›.a.b` — independent of how locals are spelled.
        Aliases (`let n = &x.node`) are looked through; loop items and pattern bindings keep their own type as root."""
        parts = []
        while depth < 40:
            depth += 1
            k = t[0]
            if k == "field" and t[2].isdigit() and t[1][0] == "downcast" and t[1][2] in WRAP_VARIANTS:
                t = t[1][1]
            elif k == "field":
                parts.append(t[2])
                t = t[1]
            elif k in ("deref", "ref", "cast", "downcast", "await"):
                t = t[1]
            elif k == "call" and t[2] and TRANSPARENT.search(t[1]):
                t = t[2][0]
            elif k in ("var", "param") and len(t) > 2:
                if k == "var":
                    ds = self.var_defs(t)
                    if len(ds) == 1:
                        d = ds[0]
                        u = d
                        while u[0] in ("deref", "ref", "cast", "field") or (u[0] == "call" and u[2] and ALIAS_CALL.search(u[1])):
                            u = u[2][0] if u[0] == "call" else u[1]
                        if u[0] in ("var", "param", "upvar") and u[:3] != t[:3] and not (u[0] == "var" and _is_loop_item(d)):
                            t = d
                            continue
                parts.append("‹%s›" % short_type(self.locals[t[2]]))
                break
            elif k == "upvar":
                parts.append("‹%s›" % (short_type(self.upvar_type(t[1])) or "^"))
                break
            elif k == "call":
                parts.append("%s()" % short(t[1]))
                break
            else:
                parts.append("<" + k + ">")
                break
        return ".".join(reversed(parts))

    def canon_term(self, t, depth=0):
        """the same term with every variable / parameter / captured variable named by its type (`‹Vec<u8>›`)"""
        if depth > 14 or not isinstance(t, tuple):
            return t
        k = t[0]
        if k in ("var", "param") and len(t) > 2 and isinstance(t[2], int) and t[2] < len(self.locals):
            return (k, "‹%s›" % short_type(self.locals[t[2]]), t[2])
        if k == "upvar":
            return (k, "‹%s›" % (short_type(self.upvar_type(t[1])) or "^"))
        if k in ("field", "deref", "ref", "index", "downcast", "cast", "discr", "await"):
            return (k, self.canon_term(t[1], depth + 1)) + tuple(t[2:])
        if k == "call":
            return (k, t[1], [self.canon_term(a, depth + 1) for a in t[2]]) + tuple(t[3:])
        if k == "aggr":
            return t[:4] + ([self.canon_term(a, depth + 1) for a in t[4]],) + tuple(t[5:])
        if k == "bin":
            return (k, t[1], self.canon_term(t[2], depth + 1), self.canon_term(t[3], depth + 1))
        if k == "un":
            return (k, t[1], self.canon_term(t[2], depth + 1))
        if k == "phi":
            return (k, [self.canon_term(a, depth + 1) for a in t[1]])
        return t

    def cstr(self, t):
        return term_str(self.canon_term(t))

    def root_type(self, t):
        """type of the variable/parameter at the root of a place-like term ('' when unknown)"""
        while t[0] in ("ref", "deref", "field", "cast", "downcast", "index"):
            t = t[1]
        if t[0] in ("var", "param") and len(t) > 2 and isinstance(t[2], int) and t[2] < len(self.locals):
            return self.locals[t[2]]
        return ""

    def switch_term(self, bi, expand_vars=False):
        t = self.blocks[bi]["t"]
        assert t["k"] == "switch"
        return self.operand_term(t["d"], 0, expand_vars)

    def call_args(self, bi, expand_vars=False):
        t = self.blocks[bi]["t"]
        return [self.operand_term(a, 0, expand_vars) for a in t["args"]]

    # ------------------------------------------------------------ control dependence
    def guards(self, b, expand_vars=False):
        """Conditions that hold on every path from entry to block b.

        Returns a list of (switch block, edge label, condition term) where the edge label is the
        list of switch values (ints, or 'otherwise') whose target edges all paths to b must take.
        An edge (S -> T) is a guard of b iff b is unreachable from entry once that edge set is the
        only one removed ... computed as: b not reachable when all *other* successor edges of S
        are kept and this one removed means the edge dominates b.
        """
        out = []
        cands = list(self.dom_chain(b))
        if self._ps_info() and b in self.live_blocks():
            # switches that dominate b only when infeasible paths are discarded (inside inlined helpers)
            extra = [sb for sb in sorted(self.live_blocks()) if self.blocks[sb]["t"]["k"] == "switch" and sb not in cands
                     and b not in self.reachable(0, avoid_blocks={sb})]
            cands = cands + extra
        for s in cands:
            t = self.blocks[s]["t"]
            if t["k"] != "switch" or s == b and False:
                continue
            by_target = defaultdict(list)
            for v, tg in t["targets"]:
                by_target[tg].append(v)
            by_target[t["otherwise"]].append("otherwise")
            if len(by_target) < 2:
                continue
            need = []
            for tg, vals in by_target.items():
                # is b reachable without using edge s->tg ?
                r = self.reachable(0, avoid_edges={(s, tg)})
                if b not in r:
                    need.append((tg, vals))
            if len(need) == 1:
                tg, vals = need[0]
                out.append((s, vals, self.switch_term(s, expand_vars)))
        return out

    def origin(self, t, depth=0):
        """the place a value was copied from: follows single-definition `let x = y` / `let x = &y.f` chains (and the
        parameter bindings of inlined helpers) down to a parameter, a captured variable, a loop item or a computed value"""
        t = strip(t)
        while depth < 12:
            depth += 1
            if t[0] == "var" and len(t) > 2:
                ds = self.var_defs(t)
                if len(ds) != 1:
                    return t
                d = ds[0]
                u = d
                while u[0] in ("deref", "ref", "cast") or (u[0] == "call" and u[2] and ALIAS_CALL.search(u[1])):
                    u = u[2][0] if u[0] == "call" else u[1]
                if u[0] in ("var", "param", "upvar") and u[:3] != t[:3] and not _is_loop_item(d):
                    t = u
                    continue
                if u[0] == "field":
                    return ("field", self.origin(u[1], depth), u[2])
                return t
            if t[0] == "field":
                return ("field", self.origin(t[1], depth), t[2])
            return t
        return t

    def copy_root(self, t):
        """replace the root variable of a place-like term by the variable it is a plain copy / reborrow of (`let x = y;`, the
        parameter binding of a helper that was analysed inlined); a variable bound to a computed value or a loop item stays"""
        path = []
        u = t
        while u[0] in ("field", "deref", "ref", "downcast"):
            path.append(u)
            u = u[1]
        seen = set()
        while u[0] == "var" and len(u) > 2 and u[2] not in seen:
            seen.add(u[2])
            ds = self.var_defs(u)
            if len(ds) != 1:
                break
            d = ds[0]
            while d[0] in ("ref", "deref", "cast"):
                d = d[1]
            if d[0] in ("var", "param") and len(d) > 2 and not _is_loop_item(ds[0]):
                u = d
            else:
                break
        out = u
        for node in reversed(path):
            out = (node[0], out) + tuple(node[2:])
        return out

    def guard_atoms(self, b, expand_vars=False):
        """[(atom, truth)] that hold on every path to b, including what a named boolean implies: after
        `let same = a.eq(x) && b.eq(y); if same {..}` the guard `same == true` implies both comparisons
        (the `false` constant assigned on the short-circuit edge is excluded by the guard itself)"""
        out = []
        for s_, vals, term in self.guards(b, expand_vars):
            atom, truth = cond_atoms(term, vals)
            out.append((atom, truth))
            work = [(atom, truth, 0)]
            while work:
                a, tr, dp = work.pop()
                a = strip_refs(a)
                if a[0] != "var" or tr is None or dp > 4 or len(a) < 3 or self.locals[a[2]] != "bool":
                    continue
                for d in self.var_defs(a):
                    u = strip_refs(d)
                    if u[0] == "const" and u[1] in (True, False):
                        continue          # the constant contradicts or trivially agrees with the guard
                    neg = False
                    while u[0] == "un" and u[1] == "Not":
                        u = strip_refs(u[2])
                        neg = not neg
                    out.append((u, (not tr) if neg else tr))
                    work.append((u, (not tr) if neg else tr, dp + 1))
        return out

    def implied_guards(self, b, expand_vars=False, _depth=0, _seen=None):
        """guards(b) plus what a named boolean implies: after `let ok = match x { Some(v) => a.eq(v), None => false }; if !ok { continue }`
        the guard `ok == true` can only come from the assignment in the `Some` arm, so the guards of THAT assignment (x is Some)
        and its value (a == v) hold as well.  Returns (switch block, edge values, condition term) triples like guards()."""
        out = list(self.guards(b, expand_vars))
        if _depth > 3:
            return out
        _seen = _seen or set()
        for s_, vals, term in list(out):
            atom, truth = cond_atoms(self.switch_term(s_, False), vals)
            a = strip_refs(atom)
            if a[0] != "var" or truth is None or len(a) < 3 or self.locals[a[2]] != "bool" or a[2] in _seen:
                continue
            cons = []
            for (bi, si, rv, lhs) in self.defs().get(a[2], ()):
                if len(lhs) != 1 or self.blocks[bi]["cl"]:
                    continue
                u = strip_refs(self.def_term(bi, si, rv, 0))
                if u[0] == "const" and u[1] in (True, False):
                    if u[1] == truth:
                        cons.append((bi, None))
                    continue
                cons.append((bi, (si, rv)))
            if len(cons) == 1 and cons[0][1] is not None:
                bi, (si, rv) = cons[0]
                # the value of the boolean is the condition computed there
                vt = self.def_term(bi, si, rv, 0, expand_vars)
                out.append((bi, [1] if truth else [0], vt))
                out += self.implied_guards(bi, expand_vars, _depth + 1, _seen | {a[2]})
        return out

    def edge_label(self, s, vals):
        """human label of a guard edge"""
        term = self.switch_term(s)
        return "%s -> %s" % (term_str(term), vals)


# ---------------------------------------------------------------- term utilities

def _is_loop_item(t):
    """term is (a projection of) the payload of Iterator::next()"""
    while t[0] in ("field", "downcast", "deref", "ref"):
        t = t[1]
    return t[0] == "call" and t[1].endswith("::next") and len(t[2]) == 1

def term_str(t, depth=0):
    if depth > 12:
        return "…"
    k = t[0]
    if k in ("var", "param", "upvar"):
        return str(t[1])
    if k == "local":
        return "_%s" % t[1]
    if k == "const":
        if t[3]:
            return short(t[3])
        v = t[1]
        if isinstance(v, bytes):
            return "b" + repr(v)[1:][:60]
        return repr(v) if isinstance(v, str) else str(v)
    if k == "fn":
        return short(t[1])
    if k == "field":
        return "%s.%s" % (term_str(t[1], depth + 1), t[2])
    if k == "deref":
        return "*%s" % term_str(t[1], depth + 1)
    if k == "ref":
        return "&%s" % term_str(t[1], depth + 1)
    if k == "index":
        return "%s[..]" % term_str(t[1], depth + 1)
    if k == "downcast":
        return "%s@%s" % (term_str(t[1], depth + 1), t[2])
    if k == "call":
        return "%s(%s)" % (short(t[1]), ", ".join(term_str(a, depth + 1) for a in t[2]))
    if k == "aggr":
        name = short(t[2]) + ("::" + t[3] if t[3] else "") if t[2] else t[1]
        return "%s{%s}" % (name, ", ".join(term_str(a, depth + 1) for a in t[4]))
    if k == "bin":
        return "(%s %s %s)" % (term_str(t[2], depth + 1), t[1], term_str(t[3], depth + 1))
    if k == "un":
        return "%s(%s)" % (t[1], term_str(t[2], depth + 1))
    if k == "cast":
        return "%s as _" % term_str(t[1], depth + 1)
    if k == "discr":
        return "discr(%s)" % term_str(t[1], depth + 1)
    if k == "phi":
        return "phi(%s)" % " | ".join(term_str(a, depth + 1) for a in t[1])
    if k == "await":
        return "%s.await" % term_str(t[1], depth + 1)
    return "?"


def subterms(t):
    """all subterms, pre-order"""
    yield t
    k = t[0]
    if k in ("field", "deref", "ref", "index", "downcast", "cast", "discr", "await"):
        yield from subterms(t[1])
    elif k == "call":
        for a in t[2]:
            yield from subterms(a)
    elif k == "aggr":
        for a in t[4]:
            yield from subterms(a)
    elif k == "bin":
        yield from subterms(t[2])
        yield from subterms(t[3])
    elif k == "un":
        yield from subterms(t[2])
    elif k == "phi":
        for a in t[1]:
            yield from subterms(a)


def has_call(t, regex):
    r = re.compile(regex)
    for s in subterms(t):
        if s[0] == "call" and r.search(s[1]):
            return s
    return None


def leaves(t):
    return [s for s in subterms(t) if s[0] in ("var", "param", "upvar", "const", "local", "fn", "unknown")]


def mentions(t, name):
    """term mentions variable/param/upvar/field called `name`"""
    for s in subterms(t):
        if s[0] in ("var", "param", "upvar") and s[1] == name:
            return True
        if s[0] == "field" and s[2] == name:
            return True
    return False


def field_path(t):
    """'a.b.c' for chains of fields over a root variable, looking through refs/derefs/clone-like calls"""
    parts = []
    while True:
        k = t[0]
        if k == "field" and t[2].isdigit() and t[1][0] == "downcast" and t[1][2] in WRAP_VARIANTS:
            t = t[1][1]
        elif k == "field":
            parts.append(t[2])
            t = t[1]
        elif k in ("deref", "ref", "cast", "downcast", "await"):
            t = t[1]
        elif k == "call" and t[2] and TRANSPARENT.search(t[1]):
            t = t[2][0]
        elif k in ("var", "param", "upvar"):
            parts.append(str(t[1]))
            break
        else:
            parts.append("<" + k + ">")
            break
    return ".".join(reversed(parts))


WRAP_VARIANTS = ("Some", "Ok", "Err", "Continue", "Break", "Ready")

TRANSPARENT = re.compile(
    r"(::clone::Clone::clone|Clone>::clone|::deref::Deref::deref|::Deref>::deref|DerefMut>::deref_mut|::AsRef<.*>::as_ref|::as_ref$|::as_mut$|"
    r"::borrow::Borrow<.*>::borrow|::to_owned$|::to_vec$|::unwrap$|::expect$|::into$|::From<.*>::from$|::Try>::branch$|"
    r"::as_str$|::as_slice$|::as_deref$|::as_bytes$|::to_string$|::cloned$|::copied$|::IntoIterator>::into_iter$|::iter$|::unwrap_or_default$)"
)


# calls that hand back (a view or copy of) their receiver without changing what it denotes
ALIAS_CALL = re.compile(r"(::clone::Clone::clone|Clone>::clone|::deref::Deref::deref|::Deref>::deref|DerefMut>::deref_mut|::as_ref$|::as_mut$|::borrow::Borrow<.*>::borrow|::to_owned$)")


def short_type(ty):
    """`&mut database::node::NodeToInsert` -> `NodeToInsert`; generic arguments are kept, module paths are not"""
    ty = re.sub(r"&('\w+ )?(mut )?", "", ty or "")
    ty = re.sub(r"\b(?:[a-z_][a-z0-9_]*::)+", "", ty)
    return ty.strip()


def spec_str(spec):
    return ", ".join("%s=%s" % (k, v if isinstance(v, (str, int, bool)) else "<fn>") for k, v in spec.items())


def strip(t):
    """remove refs, derefs, casts, Option/Result downcasts and transparent calls from the top of a term"""
    while True:
        k = t[0]
        if k in ("deref", "ref", "cast"):
            t = t[1]
        elif k == "downcast" and t[2] in WRAP_VARIANTS:
            t = t[1]
        elif k == "field" and t[2] == "0" and t[1][0] == "downcast" and t[1][2] in WRAP_VARIANTS:
            t = t[1][1]
        elif k == "call" and t[2] and TRANSPARENT.search(t[1]):
            t = t[2][0]
        else:
            return t


def cond_atoms(term, vals):
    """Normalise a guard (switch term, edge values) into (atom term, truth) for boolean conditions,
    or (place term, variant names) for enum matches.  truth is True/False/None."""
    t = term
    truth = None
    if vals == [0]:
        truth = False
    elif vals == ["otherwise"] or vals == [1]:
        truth = True
    while True:
        if t[0] == "un" and t[1] == "Not":
            t = t[2]
            if truth is not None:
                truth = not truth
            continue
        if t[0] in ("ref", "deref", "cast"):
            t = t[1]
            continue
        break
    return t, truth


def discr_variants(term, vals):
    """for a guard on discr(place): the variant names selected by the edge values"""
    t = term
    if t[0] != "discr":
        return None
    table = dict(t[3])
    names = []
    for v in vals:
        if v == "otherwise":
            names.append("otherwise")
        else:
            names.append(table.get(v, str(v)))
    return t[1], names


def guard_variants(body, s, vals, term):
    """like discr_variants for the guard (s, vals, term) of `body`, with the `otherwise` edge resolved to the variants the
    switch does not name (`if let Some(x) = o {..}` tests one variant; its else edge is `None`)"""
    dv = discr_variants(term, vals)
    if dv is None or "otherwise" not in dv[1]:
        return dv
    tt = body.blocks[s]["t"]
    table = dict(term[3])
    explicit = {v for v, tg in tt["targets"]}
    rest = [name for v, name in term[3] if v not in explicit]
    names = [n for n in dv[1] if n != "otherwise"] + rest
    return dv[0], names


# ---------------------------------------------------------------- result / exit helpers

def result_edges(body, call_block):
    """How the Result/Option produced by the call in `call_block` is tested.

    Returns {'ok': block, 'err': block, 'switch': block, 'via': 'match'|'?'} for the first switch
    whose discriminant is that call's result (directly, through a named variable, or through the
    `?` desugaring Try::branch), else None."""
    def is_this_call(t):
        t = strip_refs(t)
        # `x.await` seen through the poll loop: Poll::Ready(v) payload
        if t[0] == "field" and t[2] == "0" and t[1][0] == "downcast" and t[1][2] == "Ready":
            t = strip_refs(t[1][1])
        return (t[0] == "call" and t[3] == call_block) or (t[0] == "await" and (t[2] == call_block or inner_call_block(t) == call_block))

    def inner_call_block(t):
        u = t[1]
        while u[0] in ("ref", "deref"):
            u = u[1]
        return u[3] if u[0] == "call" else None

    for bi in sorted(body.live_blocks()):
        t = body.blocks[bi]["t"]
        if t["k"] != "switch":
            continue
        if "d:Await" in t["at"][1]:
            continue            # the Poll::Ready/Pending test of the `.await` machinery, not a test of the awaited value
        term = body.switch_term(bi, expand_vars=True)
        if term[0] != "discr":
            continue
        inner = strip_refs(term[1])
        via = None
        if inner[0] == "call" and inner[1].endswith("Try>::branch") and inner[2]:
            arg = strip_refs(inner[2][0])
            if is_this_call(arg):
                via = "?"
        elif is_this_call(inner):
            via = "match"
        if via is None:
            continue
        table = dict(term[3])
        res = {"switch": bi, "via": via}
        for v, tg in t["targets"]:
            name = table.get(v)
            if name in ("Ok", "Some", "Continue"):
                res["ok"] = tg
            elif name in ("Err", "None", "Break"):
                res["err"] = tg
        other = t["otherwise"]
        if "ok" not in res and "err" in res:
            res["ok"] = other
        if "err" not in res and "ok" in res:
            res["err"] = other
        return res
    return None


def result_edges_any(body, call_block):
    """result_edges, and the boolean forms `if x.f().is_err() {..}` / `is_ok` / `is_some` / `is_none`"""
    r = result_edges(body, call_block)
    if r is not None:
        return r
    for bi in sorted(body.live_blocks()):
        t = body.blocks[bi]["t"]
        if t["k"] != "switch" or "d:Await" in t["at"][1]:
            continue
        term = body.switch_term(bi, expand_vars=True)
        if term[0] == "discr":
            continue
        res = {"switch": bi, "via": "test"}
        by = defaultdict(list)
        for v, tg in t["targets"]:
            by[tg].append(v)
        by[t["otherwise"]].append("otherwise")
        for tg, vals in by.items():
            atom, truth = cond_atoms(term, vals)
            atom = strip_refs(atom)
            if truth is None or atom[0] != "call" or not atom[2] or not re.search(r"::(is_err|is_ok|is_some|is_none)$", atom[1]):
                res = None
                break
            inner = strip_refs(atom[2][0])
            if not (inner[0] == "call" and inner[3] == call_block):
                res = None
                break
            good = truth if re.search(r"::(is_ok|is_some)$", atom[1]) else not truth
            res["ok" if good else "err"] = tg
        if res and "ok" in res and "err" in res:
            return res
    return None


def strip_refs(t):
    while t[0] in ("ref", "deref", "cast"):
        t = t[1]
    return t


def recursion_loops(body):
    """loop headers (for-loop `next` blocks) whose loop contains a call of the body to itself — the places where a tree
    walker descends into its children; one header per loop nest (the outermost)"""
    rec = [bi for bi, t in body.live_calls() if callee_name(t) == normalize(body.id)]
    hs = []
    for hb, ht in body.live_calls():
        if callee_name(ht).endswith("::next") and "d:ForLoop" in ht["at"][1]:
            loop = {x for x in body.reach_after(hb) if hb in body.reach_after(x)}
            if any(r in loop for r in rec):
                hs.append(hb)
    outer = [hb for hb in hs if not any(h2 != hb and body.dominates(h2, hb) and hb in {x for x in body.reach_after(h2) if h2 in body.reach_after(x)} for h2 in hs)]
    return rec, outer


def return_assignments(body):
    """blocks that assign the return place: {'Ok': [...], 'Err': [...], 'residual': [...], 'other': [...]}"""
    out = {"Ok": [], "Err": [], "residual": [], "other": [], "true": [], "false": []}
    for bi in body.live_blocks():
        bl = body.blocks[bi]
        for st in bl["s"]:
            if st["lhs"] == [0]:
                rv = st["rv"]
                if rv["r"] == "aggr" and rv.get("variant") in ("Ok", "Err"):
                    out[rv["variant"]].append(bi)
                elif rv["r"] == "use" and "k" in rv["o"] and rv["o"]["k"].get("v") in (True, False) and rv["o"]["k"].get("ty") == "bool":
                    out["true" if rv["o"]["k"]["v"] else "false"].append(bi)
                else:
                    out["other"].append(bi)
        t = bl["t"]
        if t["k"] == "call" and t["dest"] == [0]:
            if callee_name(t).endswith("from_residual"):
                out["residual"].append(bi)
            else:
                out["other"].append(bi)
    return out


# ---------------------------------------------------------------- value-flow (taint) over one body

MUTATORS = re.compile(r"(::push$|::push_back$|::push_front$|::insert$|::extend$|::append$|::extend_from_slice$|::push_str$)")


def flow_sources(body, term, barrier_re, limit=4000):
    """Backward value flow from `term` inside one body.

    Follows variables (every full and partial definition of the same local), loop items to their
    collection, and values pushed/inserted into a collection variable; does not cross calls
    matching barrier_re.  Returns (terminal call names reached, barrier call names met)."""
    barrier = re.compile(barrier_re)
    seen_locals = set()
    terminals = set()
    barriers = set()
    work = [term]
    steps = 0
    mut_index = None
    while work and steps < limit:
        steps += 1
        t = work.pop()
        k = t[0]
        if k in ("var", "param") and len(t) > 2:
            l = t[2]
            if l in seen_locals:
                continue
            seen_locals.add(l)
            if k == "param" and not body.defs().get(l):
                terminals.add("param:%s" % t[1])
            for (bi, si, rv, lhs) in body.defs().get(l, ()):
                if body.blocks[bi]["cl"]:
                    continue
                work.append(body.def_term(bi, si, rv, 0))
            if mut_index is None:
                mut_index = []
                for bi, tt in body.live_calls():
                    if MUTATORS.search(callee_name(tt)) and tt["args"]:
                        a0 = tt["args"][0]
                        p = a0.get("c") or a0.get("m")
                        args = body.call_args(bi)
                        base = args[0]
                        while base[0] in ("ref", "deref", "field"):
                            base = base[1]
                        if base[0] in ("var", "param") and len(base) > 2:
                            mut_index.append((base[2], args[1:]))
            for bl, vals in mut_index:
                if bl == l:
                    work.extend(vals)
            continue
        if k == "upvar":
            terminals.add("upvar:%s" % t[1])
            continue
        if k in ("call", "await"):
            inner = t
            if k == "await":
                inner = t[1]
                while inner[0] in ("ref", "deref"):
                    inner = inner[1]
                if inner[0] != "call":
                    work.append(inner)
                    continue
            name = inner[1]
            if barrier.search(name):
                barriers.add(name)
                continue
            if not inner[2]:
                terminals.add(name)
                continue
            if TRANSPARENT.search(name) or name.endswith("::next") or name.endswith("::into_iter") or name.endswith("::iter") \
                    or name.endswith("::remove") or name.endswith("::get") or name.endswith("::get_mut") or name.endswith("::drain") \
                    or name.endswith("Box::new") or name.endswith("::map_err") or name.endswith("::ok_or"):
                work.extend(inner[2][:1])
                continue
            terminals.add(name)
            work.extend(inner[2])
            continue
        if k in ("field", "deref", "ref", "index", "downcast", "cast", "discr"):
            work.append(t[1])
        elif k == "aggr":
            work.extend(t[4])
        elif k == "bin":
            work.extend([t[2], t[3]])
        elif k == "un":
            work.append(t[2])
        elif k == "phi":
            work.extend(t[1])
    return terminals, barriers


ITER_ADAPTOR = re.compile(r"(::iter$|::iter_mut$|::enumerate$|::into_iter$|::rev$|::peekable$|::by_ref$|::drain$|::values$|::keys$)")


def elem_collection(body, var_term):
    """for a loop variable: the term of the collection it iterates, else None"""
    if var_term[0] != "var" or len(var_term) < 3:
        return None
    for (bi, si, rv, lhs) in body.defs().get(var_term[2], ()):
        t = body.def_term(bi, si, rv, 0)
        while t[0] in ("field", "downcast", "deref", "ref"):
            t = t[1]
        if t[0] == "call" and t[1].endswith("::next") and t[2]:
            it = t[2][0]
            while it[0] in ("ref", "deref"):
                it = it[1]
            if it[0] == "var":
                for (bi2, si2, rv2, lhs2) in body.defs().get(it[2], ()):
                    t2 = body.def_term(bi2, si2, rv2, 0)
                    while t2[0] in ("ref", "deref"):
                        t2 = t2[1]
                    if t2[0] == "call" and t2[2]:
                        c = t2 if ITER_ADAPTOR.search(t2[1]) else t2[2][0]
                        for _ in range(8):
                            while c[0] in ("ref", "deref"):
                                c = c[1]
                            if c[0] == "call" and c[2] and (TRANSPARENT.search(c[1]) or ITER_ADAPTOR.search(c[1])):
                                c = c[2][0]
                            else:
                                break
                        return c
    return None


def full_path(body, t, depth=0):
    """field path where loop variables are replaced by `<collection path>[]`"""
    parts = []
    while depth < 30:
        depth += 1
        k = t[0]
        if k == "field" and t[2].isdigit() and t[1][0] == "downcast" and t[1][2] in WRAP_VARIANTS:
            t = t[1][1]
        elif k == "field":
            parts.append(t[2])
            t = t[1]
        elif k in ("deref", "ref", "cast", "downcast", "await"):
            t = t[1]
        elif k == "call" and t[2] and TRANSPARENT.search(t[1]):
            t = t[2][0]
        elif k == "call" and t[2] and re.search(r"(Vec|slice|VecDeque|HashMap|HashSet|BTreeMap).*::(get|get_mut|first|last)$", t[1]):
            parts.append("[]")
            t = t[2][0]
        elif k == "var":
            c = elem_collection(body, t)
            if c is not None:
                parts.append("[]")
                t = c
                continue
            parts.append(str(t[1]))
            break
        elif k in ("param", "upvar"):
            parts.append(str(t[1]))
            break
        else:
            parts.append("<" + k + ">")
            break
    return ".".join(reversed(parts))
