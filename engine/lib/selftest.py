"""Thorough tier: test the checker both ways on source variants (analysis of variants, nothing is executed).

For every patch selftest/mutants/<PROP>-*.patch: copy /repo's sources to a scratch directory, apply the
patch, extract the MIR facts of the variant, run the property's rules and require that the obligation
named in the patch header (`# expect: <key substring>`) is reported as violated.  The scratch copy is
removed at once.  A patch that no longer applies (the code it mutates was changed) is reported as
skipped, not as a failure."""
import glob
import os
import shutil
import subprocess
import tempfile

import facts
import mir
import report

VERIF = facts.VERIF

# properties whose rules identify every local variable structurally (by type, definition or role), never by spelling;
# for these the thorough tier re-runs the rules on facts in which every user local / parameter / captured variable
# of the crate is renamed, and requires the same verdict for every obligation (and the same mutants detected)
RENAME_PROOF = {"C01", "C02", "C03", "C04", "C05", "C06", "C07", "C08", "C09", "C10", "C11", "C12", "C13", "C14", "C15", "C16", "C17", "C18", "C19", "C20"}


def renamed(data):
    import copy
    d2 = copy.deepcopy(data)
    facts.scramble_locals(d2)
    return d2


def verdicts(prop, mod, data):
    C2 = report.Check(prop, "thorough", 0)
    try:
        mod.run(mir.Program(data), C2, "quick")
    except mir.MissingAnchor as e:
        C2.anchor_missing("engine", "uncaught", str(e))
    return C2


def rename_check(prop, mod, data, C):
    """the verdict of every obligation is the same after renaming all locals of the crate"""
    if prop not in RENAME_PROOF:
        return []
    a = verdicts(prop, mod, data)
    b = verdicts(prop, mod, renamed(data))
    va = sorted((o["key"], o["ok"]) for o in a.obligations)
    vb = sorted((o["key"], o["ok"]) for o in b.obligations)
    diff = sorted(set(va) ^ set(vb))
    C.extra["rename_check"] = {"obligations": len(va), "differences": [list(x) for x in diff[:20]],
                               "rule": "all user locals, parameters and captured variables renamed (facts level): every obligation keeps its key and verdict"}
    print("selftest %s: renamed-locals run: %d obligations, %d differences" % (prop, len(va), len(diff)))
    return ["renamed-locals (verdict depends on the spelling of a local variable): %s" % diff[:4]] if diff else []


def scratch_copy():
    d = tempfile.mkdtemp(prefix="discret-variant-")
    for n in ("Cargo.toml", "Cargo.lock"):
        shutil.copy(os.path.join(facts.REPO, n), d)
    shutil.copytree(os.path.join(facts.REPO, "src"), os.path.join(d, "src"))
    for extra in ("test_data",):
        pass
    return d


def run(prop, mod, C):
    patches = sorted(glob.glob(os.path.join(VERIF, "selftest", "mutants", prop + "-*.patch")))
    patches += sorted(glob.glob(os.path.join(VERIF, "selftest", "neutral", prop + "-*.patch")))
    # independently seeded changes (sub-agents, see DESIGN 4.2) that this property's check must report
    seeded = {}
    import json as _json
    for mp in sorted(glob.glob(os.path.join(VERIF, "seeded", "*", "meta.json"))):
        try:
            m = _json.load(open(mp))
        except Exception:
            continue
        keys = [k for k in m.get("caught_by", []) if k.startswith(prop + "/")]
        pd = os.path.join(os.path.dirname(mp), "patch.diff")
        if keys and os.path.exists(pd):
            seeded[pd] = keys[0]
            patches.append(pd)
    results = []
    failures = []

    def one(job):
        """analyse one source variant in its own scratch copy (and its own build lane); returns (result dict, failure or None)"""
        lane, p = job
        name = os.path.basename(p)[:-6]
        expect = None
        if p in seeded:
            name = "seeded/" + os.path.basename(os.path.dirname(p))
            expect = seeded[p]
        for line in open(p):
            if line.startswith("# expect:"):
                expect = line.split(":", 1)[1].strip()
        d = scratch_copy()
        try:
            r = subprocess.run(["patch", "-p1", "-s", "-F0", "--no-backup-if-mismatch", "-i", p], cwd=d,
                               stdout=subprocess.PIPE, stderr=subprocess.STDOUT, text=True)
            if r.returncode != 0:
                return {"mutant": name, "status": "skipped: patch does not apply to the current tree"}, None
            try:
                data, info = facts.load(repo=d, quiet=True, lane=lane)
            except facts.NoVerdict as e:
                return {"mutant": name, "status": "skipped: variant does not compile"}, None
            C2 = verdicts(prop, mod, data)
            failed = [o["key"] for o in C2.obligations if not o["ok"] and (prop, o["key"]) not in C2.known]
            fail = None
            if prop in RENAME_PROOF:
                # the variant must be judged the same way with every local renamed
                C3 = verdicts(prop, mod, renamed(data))
                failed3 = [o["key"] for o in C3.obligations if not o["ok"] and (prop, o["key"]) not in C3.known]
                if sorted(failed3) != sorted(failed):
                    fail = name + " (judged differently after renaming locals: %s)" % sorted(set(failed) ^ set(failed3))[:3]
            if os.sep + "neutral" + os.sep in p:
                # behaviour-preserving variant: the rules must stay silent
                if failed:
                    fail = name + " (false alarm on a behaviour-preserving variant)"
                return {"neutral_variant": name, "silent": not failed, "reported": failed[:8]}, fail
            hit = [k for k in failed if expect and expect in k]
            if not hit:
                fail = fail or name
            return {"mutant": name, "expect": expect, "detected": bool(hit), "reported": failed[:8]}, fail
        finally:
            shutil.rmtree(d, ignore_errors=True)

    # the variants are independent: analyse them in parallel lanes (each lane has its own cargo target directory)
    import concurrent.futures
    import queue
    lanes = int(os.environ.get("VERIF_LANES", "4"))
    laneq = queue.Queue()
    for i in range(lanes):
        laneq.put(i)

    def run_job(p):
        lane = laneq.get()
        try:
            return one((lane, p))
        finally:
            laneq.put(lane)

    with concurrent.futures.ThreadPoolExecutor(max_workers=lanes) as ex:
        for res, fail in ex.map(run_job, patches):
            results.append(res)
            if fail:
                failures.append(fail)
    C.extra["selftest_mutants"] = results
    C.extra["selftest_rule"] = "each source variant breaks one rule instance and still compiles; the rule must report that instance by key"
    n_det = len([r for r in results if r.get("detected")])
    print("selftest %s: %d variants, %d detected, %d skipped" % (prop, len(results), n_det, len([r for r in results if "status" in r])))
    return failures
