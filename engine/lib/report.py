"""Obligations, known findings, evidence and exit status for one property check."""
import hashlib
import json
import os
import sys
import time

VERIF = os.path.dirname(os.path.dirname(os.path.dirname(os.path.abspath(__file__))))
# development aid only: side runs (variants analysed in another tree) must not overwrite the evidence of the real checks
EVDIR = os.environ.get("VERIF_EVIDENCE_DIR") or os.path.join(VERIF, "evidence")
KNOWN_PATH = os.path.join(VERIF, "known_findings.json")


class Check:
    def __init__(self, prop, tier="quick", seed=0):
        self.prop = prop
        self.tier = tier
        self.seed = seed
        self.t0 = time.time()
        self.obligations = []     # dicts
        self.notes = []
        self.analysed_bodies = set()
        self.rules = {}           # rule -> description
        self.floors = []          # (rule, what, found, minimum)
        self.assumptions = []
        self.trusted = [
            "rustc nightly MIR construction and name resolution (mir_built, Instance::try_resolve)",
            "the enumerated idiom tables in the rule source (an unlisted idiom fails closed)",
        ]
        self.explanation = ""
        self.extra = {}
        with open(KNOWN_PATH) as fh:
            kf = json.load(fh)
        self.known = {(e["property"], e["key"]): e for e in kf["findings"] if e.get("status") == "known"}

    # ------------------------------------------------------------------ recording
    def rule(self, rule, description):
        self.rules[rule] = description

    def ob(self, rule, key, ok, site="", detail="", nontrivial=True):
        """one obligation. key must not contain line numbers."""
        self.obligations.append({
            "rule": rule, "key": "%s/%s/%s" % (self.prop, rule, key), "ok": bool(ok), "site": site,
            "detail": detail, "nontrivial": nontrivial,
        })
        return bool(ok)

    def floor(self, rule, what, found, minimum):
        """fail closed when a rule matches fewer instances than were confirmed by hand"""
        self.floors.append((rule, what, found, minimum))
        self.ob(rule, "coverage:" + what, found >= minimum, "",
                "instances matched: %d, confirmed by reading: >= %d" % (found, minimum), nontrivial=False)

    def anchor_missing(self, rule, what, err):
        self.ob(rule, "anchor:" + what, False, "", "anchor not found in the current tree: %s" % err, nontrivial=False)

    def note(self, text):
        self.notes.append(text)

    def saw(self, body):
        self.analysed_bodies.add(body.id if hasattr(body, "id") else str(body))

    # ------------------------------------------------------------------ result
    def finish(self, facts_info=None):
        os.makedirs(EVDIR, exist_ok=True)
        failed = [o for o in self.obligations if not o["ok"]]
        violations = []
        known_hits = []
        for o in failed:
            e = self.known.get((self.prop, o["key"]))
            if e is not None:
                known_hits.append((o, e))
            else:
                violations.append(o)
        for o, e in known_hits:
            print("KNOWN-FINDING: property=%s %s -- %s [%s]" % (self.prop, o["key"], e.get("what", ""), o["site"]))
        replay_paths = []
        if violations:
            rdir = os.path.join(EVDIR, "replay")
            os.makedirs(rdir, exist_ok=True)
            for o in violations:
                h = hashlib.sha256(o["key"].encode()).hexdigest()[:10]
                p = os.path.join(rdir, "%s-%s.json" % (self.prop, h))
                with open(p, "w") as fh:
                    json.dump({"property": self.prop, "rule": o["rule"], "rule_text": self.rules.get(o["rule"], ""),
                               "key": o["key"], "site": o["site"], "detail": o["detail"]}, fh, indent=1)
                replay_paths.append(p)
                print("  violated: %s\n    at %s\n    %s" % (o["key"], o["site"] or "-", o["detail"]))
                print("VIOLATION property=%s replay=%s" % (self.prop, p))
        n_ob = len(self.obligations)
        n_ok = len([o for o in self.obligations if o["ok"]])
        distinct_nt = len({o["key"] for o in self.obligations if o["nontrivial"]})
        samples = []
        seen_rules = set()
        for o in self.obligations:
            if o["rule"] not in seen_rules and o["nontrivial"]:
                seen_rules.add(o["rule"])
                samples.append({k: o[k] for k in ("key", "ok", "site", "detail")})
        for o in failed[:20]:
            samples.append({k: o[k] for k in ("key", "ok", "site", "detail")})
        ev = {
            "property_id": self.prop,
            "tier": self.tier,
            "seed": self.seed,
            "level": "other",
            "coverage": {
                "explanation": self.explanation,
                "obligations": n_ob,
                "discharged": n_ok,
                "evaluations": n_ob,
                "distinct_nontrivial": distinct_nt,
                "rule": "one evaluation = one rule instance (call site, CFG path set, template hole, enum arm, struct field) "
                        "decided on the MIR of /repo's working tree; non-trivial = the decision needed a dominance, "
                        "control-dependence, reachability or provenance query (presence/coverage counters are trivial)",
                "samples": samples[:40],
                "checker_cmd": "./check %s --tier %s" % (self.prop, self.tier),
                "trusted_base": self.trusted,
                "rules": self.rules,
                "floors": [{"rule": r, "what": w, "found": f, "minimum": m} for r, w, f, m in self.floors],
                "bodies_analysed": sorted(self.analysed_bodies),
                "n_bodies_analysed": len(self.analysed_bodies),
                "known_findings_hit": [o["key"] for o, _ in known_hits],
                "notes": self.notes,
                "facts": facts_info or {},
                "all_obligations": [{k: o[k] for k in ("key", "ok", "site")} for o in self.obligations],
            },
            "assumptions": self.assumptions,
            "wall_s": round(time.time() - self.t0, 2),
            "violations": len(violations),
        }
        ev["coverage"].update(self.extra)
        with open(os.path.join(EVDIR, "%s.json" % self.prop), "w") as fh:
            json.dump(ev, fh, indent=1)
        print("%s: %d obligations, %d discharged, %d known findings, %d violations (%.1fs)"
              % (self.prop, n_ob, n_ok, len(known_hits), len(violations), time.time() - self.t0))
        return 1 if violations else 0
