// Fact extractor for the static checks of /verif.
//
// Used as RUSTC_WORKSPACE_WRAPPER under `cargo +nightly check --lib`: argv[1] is the real rustc
// path (dropped), the rest is the rustc command line of a workspace member. For the crate named
// by DISCRET_FACTS_CRATE (default "discret") the driver dumps, in `after_expansion`, the built
// MIR of every body plus type/const/impl facts as ONE JSON document written in ONE write to
// $DISCRET_FACTS_OUT, and then lets compilation continue so that cargo sees a normal rustc.
#![feature(rustc_private)]
#![allow(rustc::internal)]

extern crate rustc_abi;
extern crate rustc_driver;
extern crate rustc_hir;
extern crate rustc_interface;
extern crate rustc_middle;
extern crate rustc_span;

use rustc_driver::Compilation;
use rustc_hir::def::DefKind;
use rustc_hir::def_id::{DefId, LocalDefId};
use rustc_interface::interface::Compiler;
use rustc_middle::mir::*;
use rustc_middle::ty::print::with_no_trimmed_paths;
use rustc_middle::ty::{self, Instance, Ty, TyCtxt, TypingEnv, TypeVisitableExt};
use rustc_span::Span;
use std::fmt::Write as _;

// ---------------------------------------------------------------- JSON helpers
fn esc(s: &str, out: &mut String) {
    out.push('"');
    for c in s.chars() {
        match c {
            '"' => out.push_str("\\\""),
            '\\' => out.push_str("\\\\"),
            '\n' => out.push_str("\\n"),
            '\r' => out.push_str("\\r"),
            '\t' => out.push_str("\\t"),
            c if (c as u32) < 0x20 => {
                let _ = write!(out, "\\u{:04x}", c as u32);
            }
            c => out.push(c),
        }
    }
    out.push('"');
}
fn js(s: &str) -> String {
    let mut o = String::with_capacity(s.len() + 2);
    esc(s, &mut o);
    o
}
fn bytes_json(b: &[u8]) -> String {
    let mut o = String::from("[");
    for (i, x) in b.iter().enumerate() {
        if i > 0 {
            o.push(',');
        }
        let _ = write!(o, "{}", x);
    }
    o.push(']');
    o
}

struct Cx<'tcx> {
    tcx: TyCtxt<'tcx>,
}

impl<'tcx> Cx<'tcx> {
    fn path(&self, d: DefId) -> String {
        with_no_trimmed_paths!(self.tcx.def_path_str(d))
    }
    fn tys(&self, t: Ty<'tcx>) -> String {
        with_no_trimmed_paths!(t.to_string())
    }
    // [file, line, expn] : position of the outermost call site; expn = "" when not from an
    // expansion, otherwise "m:<macro>" / "d:<desugaring>" of the outermost expansion.
    fn span(&self, sp: Span) -> String {
        let sm = self.tcx.sess.source_map();
        let mut ex = String::new();
        if sp.from_expansion() {
            let mut last = None;
            for e in sp.macro_backtrace() {
                last = Some(e);
            }
            if let Some(e) = last {
                match e.kind {
                    rustc_span::ExpnKind::Macro(_, name) => {
                        ex = format!("m:{}", name);
                    }
                    rustc_span::ExpnKind::Desugaring(k) => {
                        ex = format!("d:{:?}", k);
                    }
                    rustc_span::ExpnKind::AstPass(k) => {
                        ex = format!("a:{:?}", k);
                    }
                    _ => {
                        ex = "x".to_string();
                    }
                }
            } else {
                // desugarings are not in macro_backtrace
                let d = sp.ctxt().outer_expn_data();
                match d.kind {
                    rustc_span::ExpnKind::Desugaring(k) => ex = format!("d:{:?}", k),
                    rustc_span::ExpnKind::Macro(_, name) => ex = format!("m:{}", name),
                    _ => ex = "x".to_string(),
                }
            }
        }
        let cs = sp.source_callsite();
        let lo = sm.lookup_char_pos(cs.lo());
        let file = match &lo.file.name {
            rustc_span::FileName::Real(r) => match r.local_path() {
                Some(p) => p.to_string_lossy().to_string(),
                None => format!("{:?}", r),
            },
            other => format!("{:?}", other),
        };
        format!("[{},{},{}]", js(&file), lo.line, js(&ex))
    }
    fn line(&self, sp: Span) -> String {
        // compact: [line, expn] relative to the body's file (call site of the outermost expansion)
        let sm = self.tcx.sess.source_map();
        let mut ex = String::new();
        if sp.from_expansion() {
            let mut last = None;
            for e in sp.macro_backtrace() {
                last = Some(e);
            }
            let kind = match last {
                Some(e) => Some(e.kind),
                None => Some(sp.ctxt().outer_expn_data().kind),
            };
            match kind {
                Some(rustc_span::ExpnKind::Macro(_, name)) => ex = format!("m:{}", name),
                Some(rustc_span::ExpnKind::Desugaring(k)) => ex = format!("d:{:?}", k),
                Some(rustc_span::ExpnKind::AstPass(k)) => ex = format!("a:{:?}", k),
                _ => ex = "x".to_string(),
            }
            // innermost desugaring (e.g. `?` inside a macro) is useful too
            if let rustc_span::ExpnKind::Desugaring(k) = sp.ctxt().outer_expn_data().kind {
                let d = format!("d:{:?}", k);
                if ex != d {
                    ex = format!("{}|{}", ex, d);
                }
            }
        }
        let cs = sp.source_callsite();
        let lo = sm.lookup_char_pos(cs.lo());
        format!("[{},{}]", lo.line, js(&ex))
    }

    fn field_name(&self, base: Ty<'tcx>, variant: Option<rustc_abi::VariantIdx>, f: rustc_abi::FieldIdx) -> String {
        match base.kind() {
            ty::Adt(adt, _) => {
                let v = match variant {
                    Some(v) => adt.variant(v),
                    None => {
                        if adt.is_enum() {
                            return format!("{}", f.as_u32());
                        }
                        adt.non_enum_variant()
                    }
                };
                match v.fields.get(f) {
                    Some(fd) => fd.name.to_string(),
                    None => format!("{}", f.as_u32()),
                }
            }
            ty::Closure(def, _) | ty::Coroutine(def, _) | ty::CoroutineClosure(def, _) => {
                if let Some(ld) = def.as_local() {
                    let caps = self.tcx.closure_captures(ld);
                    if let Some(c) = caps.get(f.as_usize()) {
                        return format!("^{}", c.var_ident.name);
                    }
                }
                format!("{}", f.as_u32())
            }
            _ => format!("{}", f.as_u32()),
        }
    }

    fn place(&self, body: &Body<'tcx>, p: &Place<'tcx>) -> String {
        let mut o = String::new();
        let _ = write!(o, "[{}", p.local.as_u32());
        let mut pty = rustc_middle::mir::PlaceTy::from_ty(body.local_decls[p.local].ty);
        for elem in p.projection.iter() {
            o.push(',');
            match elem {
                ProjectionElem::Deref => o.push_str("\"*\""),
                ProjectionElem::Field(f, _) => {
                    let n = self.field_name(pty.ty, pty.variant_index, f);
                    let _ = write!(o, "{}", js(&format!(".{}", n)));
                }
                ProjectionElem::Index(l) => {
                    let _ = write!(o, "{}", js(&format!("[_{}]", l.as_u32())));
                }
                ProjectionElem::ConstantIndex { offset, from_end, .. } => {
                    let _ = write!(o, "{}", js(&format!("[{}{}]", if from_end { "-" } else { "" }, offset)));
                }
                ProjectionElem::Subslice { from, to, from_end } => {
                    let _ = write!(o, "{}", js(&format!("[{}..{}{}]", from, if from_end { "-" } else { "" }, to)));
                }
                ProjectionElem::Downcast(name, vi) => {
                    let n = match name {
                        Some(s) => s.to_string(),
                        None => format!("{}", vi.as_u32()),
                    };
                    let _ = write!(o, "{}", js(&format!("@{}", n)));
                }
                _ => o.push_str("\"?\""),
            }
            pty = pty.projection_ty(self.tcx, elem);
        }
        o.push(']');
        o
    }

    fn alloc_bytes(&self, alloc_id: rustc_middle::mir::interpret::AllocId, off: usize, len: usize) -> Option<Vec<u8>> {
        match self.tcx.try_get_global_alloc(alloc_id)? {
            rustc_middle::mir::interpret::GlobalAlloc::Memory(a) => {
                let a = a.inner();
                if off + len > a.len() {
                    return None;
                }
                Some(a.inspect_with_uninit_and_ptr_outside_interpreter(off..off + len).to_vec())
            }
            _ => None,
        }
    }

    fn const_value(&self, owner: DefId, c: &Const<'tcx>) -> String {
        let tcx = self.tcx;
        let ty = c.ty();
        let tys = self.tys(ty);
        if let ty::FnDef(d, args) = ty.kind() {
            return format!("{{\"fn\":{},\"ga\":{}}}", js(&self.path(*d)), js(&with_no_trimmed_paths!(format!("{:?}", args))));
        }
        let mut name = String::new();
        if let Const::Unevaluated(u, _) = c {
            name = self.path(u.def);
            if u.promoted.is_some() {
                name.push_str("#promoted");
            }
        }
        let env = TypingEnv::post_analysis(tcx, owner);
        let mut val = String::from("null");
        // generic-dependent constants cannot be evaluated
        let evaluable = !c.has_non_region_param();
        if evaluable {
            if let Ok(v) = c.eval(tcx, env, rustc_span::DUMMY_SP) {
                match v {
                    ConstValue::Scalar(s) => match s {
                        rustc_middle::mir::interpret::Scalar::Int(i) => {
                            let size = i.size();
                            let bits = i.to_bits(size);
                            if ty.is_signed() {
                                let sv = size.sign_extend(bits) as i128;
                                val = format!("{}", sv);
                            } else if ty.is_bool() {
                                val = if bits != 0 { "true".into() } else { "false".into() };
                            } else {
                                val = format!("{}", bits);
                            }
                        }
                        rustc_middle::mir::interpret::Scalar::Ptr(p, _) => {
                            {
                                let (prov, _off) = p.into_raw_parts();
                                if let Some(rustc_middle::mir::interpret::GlobalAlloc::Static(sd)) = tcx.try_get_global_alloc(prov.alloc_id()) {
                                    name = format!("static:{}", self.path(sd));
                                }
                            }
                            // &[u8; N] byte string literal, &&str ...
                            if let ty::Ref(_, inner, _) = ty.kind() {
                                if let ty::Array(et, n) = inner.kind() {
                                    if *et == tcx.types.u8 {
                                        if let Some(n) = n.try_to_target_usize(tcx) {
                                            let (prov, off) = p.into_raw_parts();
                                            if let Some(b) = self.alloc_bytes(prov.alloc_id(), off.bytes() as usize, n as usize) {
                                                val = format!("{{\"bytes\":{}}}", bytes_json(&b));
                                            }
                                        }
                                    }
                                }
                            }
                        }
                    },
                    ConstValue::Slice { alloc_id, meta } => {
                        if let Some(b) = self.alloc_bytes(alloc_id, 0, meta as usize) {
                            match std::str::from_utf8(&b) {
                                Ok(s) if matches!(ty.kind(), ty::Ref(_, t, _) if t.is_str()) => val = js(s),
                                _ => val = format!("{{\"bytes\":{}}}", bytes_json(&b)),
                            }
                        }
                    }
                    ConstValue::ZeroSized => val = "\"zst\"".into(),
                    ConstValue::Indirect { .. } => val = "\"indirect\"".into(),
                }
            }
        }
        format!("{{\"ty\":{},\"v\":{},\"n\":{}}}", js(&tys), val, js(&name))
    }

    fn operand(&self, owner: DefId, body: &Body<'tcx>, op: &Operand<'tcx>) -> String {
        match op {
            Operand::Copy(p) => format!("{{\"c\":{}}}", self.place(body, p)),
            Operand::Move(p) => format!("{{\"m\":{}}}", self.place(body, p)),
            Operand::Constant(c) => format!("{{\"k\":{}}}", self.const_value(owner, &c.const_)),
            #[allow(unreachable_patterns)]
            _ => "{\"u\":1}".to_string(),
        }
    }

    fn rvalue(&self, owner: DefId, body: &Body<'tcx>, rv: &Rvalue<'tcx>) -> String {
        let tcx = self.tcx;
        match rv {
            Rvalue::Use(op, ..) => format!("{{\"r\":\"use\",\"o\":{}}}", self.operand(owner, body, op)),
            Rvalue::Repeat(op, _) => format!("{{\"r\":\"repeat\",\"o\":{}}}", self.operand(owner, body, op)),
            Rvalue::Ref(_, bk, p) => {
                let m = matches!(bk, BorrowKind::Mut { .. });
                format!("{{\"r\":\"ref\",\"mut\":{},\"p\":{}}}", m, self.place(body, p))
            }
            Rvalue::RawPtr(_, p) => format!("{{\"r\":\"rawptr\",\"p\":{}}}", self.place(body, p)),
            Rvalue::Cast(kind, op, ty) => format!(
                "{{\"r\":\"cast\",\"kind\":{},\"o\":{},\"ty\":{}}}",
                js(&format!("{:?}", kind)),
                self.operand(owner, body, op),
                js(&self.tys(*ty))
            ),
            Rvalue::BinaryOp(bop, ops) => format!(
                "{{\"r\":\"bin\",\"op\":{},\"a\":{},\"b\":{}}}",
                js(&format!("{:?}", bop)),
                self.operand(owner, body, &ops.0),
                self.operand(owner, body, &ops.1)
            ),
            Rvalue::UnaryOp(uop, op) => format!(
                "{{\"r\":\"un\",\"op\":{},\"o\":{}}}",
                js(&format!("{:?}", uop)),
                self.operand(owner, body, op)
            ),
            Rvalue::Discriminant(p) => {
                let pty = p.ty(&body.local_decls, tcx).ty;
                let mut vars = String::from("[");
                let mut adt_name = String::new();
                if let ty::Adt(adt, _) = pty.kind() {
                    adt_name = self.path(adt.did());
                    if adt.is_enum() {
                        let mut first = true;
                        for (vi, d) in adt.discriminants(tcx) {
                            if !first {
                                vars.push(',');
                            }
                            first = false;
                            let _ = write!(vars, "[{},{}]", d.val, js(adt.variant(vi).name.as_str()));
                        }
                    }
                }
                vars.push(']');
                format!("{{\"r\":\"discr\",\"p\":{},\"adt\":{},\"vars\":{}}}", self.place(body, p), js(&adt_name), vars)
            }
            Rvalue::Aggregate(kind, ops) => {
                let mut k = String::new();
                match &**kind {
                    AggregateKind::Array(_) => k.push_str("\"kind\":\"array\""),
                    AggregateKind::Tuple => k.push_str("\"kind\":\"tuple\""),
                    AggregateKind::Adt(did, vi, _, _, _) => {
                        let adt = tcx.adt_def(*did);
                        let v = adt.variant(*vi);
                        let mut fields = String::from("[");
                        for (i, f) in v.fields.iter().enumerate() {
                            if i > 0 {
                                fields.push(',');
                            }
                            fields.push_str(&js(f.name.as_str()));
                        }
                        fields.push(']');
                        let _ = write!(
                            k,
                            "\"kind\":\"adt\",\"adt\":{},\"variant\":{},\"fields\":{}",
                            js(&self.path(*did)),
                            js(v.name.as_str()),
                            fields
                        );
                    }
                    AggregateKind::Closure(did, _) => {
                        let _ = write!(k, "\"kind\":\"closure\",\"def\":{}", js(&self.path(*did)));
                    }
                    AggregateKind::Coroutine(did, _) => {
                        let _ = write!(k, "\"kind\":\"coroutine\",\"def\":{}", js(&self.path(*did)));
                    }
                    AggregateKind::CoroutineClosure(did, _) => {
                        let _ = write!(k, "\"kind\":\"coroutine_closure\",\"def\":{}", js(&self.path(*did)));
                    }
                    AggregateKind::RawPtr(..) => k.push_str("\"kind\":\"rawptr\""),
                }
                let mut o = String::from("[");
                for (i, op) in ops.iter().enumerate() {
                    if i > 0 {
                        o.push(',');
                    }
                    o.push_str(&self.operand(owner, body, op));
                }
                o.push(']');
                format!("{{\"r\":\"aggr\",{},\"ops\":{}}}", k, o)
            }
            Rvalue::CopyForDeref(p) => format!("{{\"r\":\"use\",\"o\":{{\"c\":{}}}}}", self.place(body, p)),
            other => format!("{{\"r\":\"other\",\"dbg\":{}}}", js(&format!("{:?}", other).chars().take(120).collect::<String>())),
        }
    }

    fn body(&self, ldid: LocalDefId, body: &Body<'tcx>, out: &mut String) {
        let tcx = self.tcx;
        let did = ldid.to_def_id();
        let kind = tcx.def_kind(did);
        let parent = tcx.opt_parent(did).map(|p| self.path(p)).unwrap_or_default();
        let mut kinds = format!("{:?}", kind);
        if let Some(ck) = tcx.coroutine_kind(did) {
            kinds = format!("Coroutine:{:?}", ck);
        }
        let vis = if matches!(kind, DefKind::Fn | DefKind::AssocFn) {
            format!("{:?}", tcx.visibility(did))
        } else {
            String::new()
        };
        // impl / trait context
        let mut impl_of = String::new();
        let mut trait_of = String::new();
        if matches!(kind, DefKind::AssocFn | DefKind::AssocConst { .. }) {
            let p = tcx.parent(did);
            if let DefKind::Impl { of_trait } = tcx.def_kind(p) {
                impl_of = self.tys(tcx.type_of(p).instantiate_identity().skip_norm_wip());
                if of_trait {
                    let tr = tcx.impl_trait_ref(p).instantiate_identity().skip_norm_wip();
                    trait_of = self.path(tr.def_id);
                }
            }
        }
        let sm = tcx.sess.source_map();
        let hi = sm.lookup_char_pos(body.span.hi());
        let _ = write!(
            out,
            "{{\"id\":{},\"kind\":{},\"parent\":{},\"vis\":{},\"impl_of\":{},\"trait_of\":{},\"span\":{},\"end_line\":{},\"argc\":{},",
            js(&self.path(did)),
            js(&kinds),
            js(&parent),
            js(&vis),
            js(&impl_of),
            js(&trait_of),
            self.span(body.span),
            hi.line,
            body.arg_count
        );
        // locals
        out.push_str("\"locals\":[");
        for (i, (_, decl)) in body.local_decls.iter_enumerated().enumerate() {
            if i > 0 {
                out.push(',');
            }
            out.push_str(&js(&self.tys(decl.ty)));
        }
        out.push_str("],\"vars\":[");
        let mut first = true;
        for v in body.var_debug_info.iter() {
            if let VarDebugInfoContents::Place(p) = &v.value {
                if !first {
                    out.push(',');
                }
                first = false;
                let _ = write!(out, "[{},{}]", js(v.name.as_str()), self.place(body, p));
            }
        }
        out.push_str("],\"blocks\":[");
        for (bi, (_, bb)) in body.basic_blocks.iter_enumerated().enumerate() {
            if bi > 0 {
                out.push(',');
            }
            let _ = write!(out, "{{\"cl\":{},\"s\":[", if bb.is_cleanup { 1 } else { 0 });
            let mut firsts = true;
            for st in bb.statements.iter() {
                let s = match &st.kind {
                    StatementKind::Assign(b) => {
                        let (p, rv) = &**b;
                        Some(format!(
                            "{{\"lhs\":{},\"rv\":{},\"at\":{}}}",
                            self.place(body, p),
                            self.rvalue(did, body, rv),
                            self.line(st.source_info.span)
                        ))
                    }
                    StatementKind::SetDiscriminant { place, variant_index } => Some(format!(
                        "{{\"lhs\":{},\"rv\":{{\"r\":\"setdiscr\",\"v\":{}}},\"at\":{}}}",
                        self.place(body, place),
                        variant_index.as_u32(),
                        self.line(st.source_info.span)
                    )),
                    _ => None,
                };
                if let Some(s) = s {
                    if !firsts {
                        out.push(',');
                    }
                    firsts = false;
                    out.push_str(&s);
                }
            }
            out.push_str("],\"t\":");
            let term = bb.terminator();
            let at = self.line(term.source_info.span);
            let t = match &term.kind {
                TerminatorKind::Goto { target } => format!("{{\"k\":\"goto\",\"to\":{}}}", target.as_u32()),
                TerminatorKind::SwitchInt { discr, targets } => {
                    let mut ts = String::from("[");
                    for (i, (v, t)) in targets.iter().enumerate() {
                        if i > 0 {
                            ts.push(',');
                        }
                        let _ = write!(ts, "[{},{}]", v, t.as_u32());
                    }
                    ts.push(']');
                    format!(
                        "{{\"k\":\"switch\",\"d\":{},\"targets\":{},\"otherwise\":{}}}",
                        self.operand(did, body, discr),
                        ts,
                        targets.otherwise().as_u32()
                    )
                }
                TerminatorKind::Return => "{\"k\":\"return\"}".to_string(),
                TerminatorKind::Unreachable => "{\"k\":\"unreachable\"}".to_string(),
                TerminatorKind::UnwindResume => "{\"k\":\"resume\"}".to_string(),
                TerminatorKind::UnwindTerminate(_) => "{\"k\":\"terminate\"}".to_string(),
                TerminatorKind::Drop { place, target, unwind, .. } => {
                    let uw = match unwind {
                        UnwindAction::Cleanup(b) => b.as_u32() as i64,
                        _ => -1,
                    };
                    format!("{{\"k\":\"drop\",\"p\":{},\"to\":{},\"uw\":{}}}", self.place(body, place), target.as_u32(), uw)
                }
                TerminatorKind::Call { func, args, destination, target, unwind, .. } => {
                    let mut a = String::from("[");
                    for (i, arg) in args.iter().enumerate() {
                        if i > 0 {
                            a.push(',');
                        }
                        a.push_str(&self.operand(did, body, &arg.node));
                    }
                    a.push(']');
                    let uw = match unwind {
                        UnwindAction::Cleanup(b) => b.as_u32() as i64,
                        _ => -1,
                    };
                    let to = match target {
                        Some(t) => t.as_u32() as i64,
                        None => -1,
                    };
                    // callee
                    let mut callee = String::new();
                    let mut resolved = String::new();
                    let mut ga = String::new();
                    let mut selfty = String::new();
                    let mut fnop = String::from("null");
                    let fty = func.ty(&body.local_decls, tcx);
                    if let ty::FnDef(cd, cargs) = fty.kind() {
                        callee = self.path(*cd);
                        ga = with_no_trimmed_paths!(format!("{:?}", cargs));
                        if tcx.trait_of_assoc(*cd).is_some() && cargs.len() > 0 {
                            if let Some(t) = cargs.get(0).and_then(|g| g.as_type()) {
                                selfty = self.tys(t);
                            }
                        }
                        let env = TypingEnv::post_analysis(tcx, did);
                        if let Ok(Some(inst)) = Instance::try_resolve(tcx, env, *cd, cargs) {
                            let rd = inst.def_id();
                            if rd != *cd {
                                resolved = self.path(rd);
                            }
                        }
                    } else {
                        fnop = self.operand(did, body, func);
                        callee = format!("<indirect:{}>", self.tys(fty));
                    }
                    format!(
                        "{{\"k\":\"call\",\"f\":{},\"rf\":{},\"ga\":{},\"self\":{},\"fo\":{},\"args\":{},\"dest\":{},\"to\":{},\"uw\":{}}}",
                        js(&callee),
                        js(&resolved),
                        js(&ga),
                        js(&selfty),
                        fnop,
                        a,
                        self.place(body, destination),
                        to,
                        uw
                    )
                }
                TerminatorKind::Assert { cond, expected, msg, target, .. } => {
                    let mk = format!("{:?}", msg).chars().take(40).collect::<String>();
                    let mk = mk.split('(').next().unwrap_or("").split(' ').next().unwrap_or("").to_string();
                    format!(
                        "{{\"k\":\"assert\",\"cond\":{},\"expected\":{},\"msg\":{},\"to\":{}}}",
                        self.operand(did, body, cond),
                        expected,
                        js(&mk),
                        target.as_u32()
                    )
                }
                TerminatorKind::Yield { value, resume, drop, .. } => {
                    let d = match drop {
                        Some(b) => b.as_u32() as i64,
                        None => -1,
                    };
                    format!(
                        "{{\"k\":\"yield\",\"v\":{},\"to\":{},\"drop\":{}}}",
                        self.operand(did, body, value),
                        resume.as_u32(),
                        d
                    )
                }
                TerminatorKind::CoroutineDrop => "{\"k\":\"codrop\"}".to_string(),
                TerminatorKind::FalseEdge { real_target, .. } => format!("{{\"k\":\"goto\",\"to\":{},\"false\":1}}", real_target.as_u32()),
                TerminatorKind::FalseUnwind { real_target, .. } => format!("{{\"k\":\"goto\",\"to\":{},\"false\":2}}", real_target.as_u32()),
                TerminatorKind::TailCall { .. } => "{\"k\":\"tailcall\"}".to_string(),
                TerminatorKind::InlineAsm { .. } => "{\"k\":\"asm\"}".to_string(),
            };
            // splice "at" into the terminator object
            let t = format!("{},\"at\":{}}}", &t[..t.len() - 1], at);
            out.push_str(&t);
            out.push('}');
        }
        out.push_str("]}");
    }
}

struct Cb {
    out: String,
}

impl rustc_driver::Callbacks for Cb {
    fn after_expansion<'tcx>(&mut self, _c: &Compiler, tcx: TyCtxt<'tcx>) -> Compilation {
        let cx = Cx { tcx };
        // Phase 1: take copies of every built MIR body before anything can steal them.
        let mut bodies: Vec<(LocalDefId, Body<'tcx>)> = Vec::new();
        for ldid in tcx.hir_body_owners() {
            let kind = tcx.def_kind(ldid.to_def_id());
            match kind {
                DefKind::Fn | DefKind::AssocFn | DefKind::Closure => {}
                _ => continue, // consts/statics are evaluated, not dumped
            }
            let b = tcx.mir_built(ldid).borrow().clone();
            bodies.push((ldid, b));
        }
        let mut out = String::with_capacity(64 << 20);
        let crate_name = tcx.crate_name(rustc_hir::def_id::LOCAL_CRATE).to_string();
        let _ = write!(out, "{{\"crate\":{},\"bodies\":[", js(&crate_name));
        for (i, (ldid, b)) in bodies.iter().enumerate() {
            if i > 0 {
                out.push(',');
            }
            cx.body(*ldid, b, &mut out);
        }
        out.push_str("],\"adts\":[");
        // Phase 2: type facts
        let mut first = true;
        let items = tcx.hir_crate_items(());
        for ldid in items.definitions() {
            let did = ldid.to_def_id();
            let kind = tcx.def_kind(did);
            if !matches!(kind, DefKind::Struct | DefKind::Enum) {
                continue;
            }
            let adt = tcx.adt_def(did);
            if !first {
                out.push(',');
            }
            first = false;
            let _ = write!(
                out,
                "{{\"path\":{},\"kind\":{},\"span\":{},\"variants\":[",
                js(&cx.path(did)),
                js(&format!("{:?}", kind)),
                cx.span(tcx.def_span(did))
            );
            for (vi, v) in adt.variants().iter().enumerate() {
                if vi > 0 {
                    out.push(',');
                }
                let _ = write!(out, "{{\"name\":{},\"fields\":[", js(v.name.as_str()));
                for (fi, f) in v.fields.iter().enumerate() {
                    if fi > 0 {
                        out.push(',');
                    }
                    let fty = tcx.type_of(f.did).instantiate_identity().skip_norm_wip();
                    let attrs = String::new();
                    let _ = write!(
                        out,
                        "{{\"name\":{},\"ty\":{},\"attrs\":{},\"line\":{}}}",
                        js(f.name.as_str()),
                        js(&cx.tys(fty)),
                        js(&attrs),
                        tcx.sess.source_map().lookup_char_pos(tcx.def_span(f.did).lo()).line
                    );
                }
                out.push_str("]}");
            }
            out.push_str("]}");
        }
        out.push_str("],\"consts\":[");
        let mut first = true;
        for ldid in items.definitions() {
            let did = ldid.to_def_id();
            let kind = tcx.def_kind(did);
            if matches!(kind, DefKind::Static { .. }) {
                // `static X: &str = "..."`: the allocation holds a (pointer, length) pair
                let ty = tcx.type_of(did).instantiate_identity().skip_norm_wip();
                let mut val = String::from("null");
                if let Ok(alloc) = tcx.eval_static_initializer(did) {
                    let a = alloc.inner();
                    if a.len() == 16 {
                        if let Some((_, prov)) = a.provenance().ptrs().iter().next() {
                            let raw = a.inspect_with_uninit_and_ptr_outside_interpreter(8..16);
                            let mut lb = [0u8; 8];
                            lb.copy_from_slice(raw);
                            let len = u64::from_le_bytes(lb) as usize;
                            if let Some(b) = cx.alloc_bytes(prov.alloc_id(), 0, len) {
                                if let Ok(st) = std::str::from_utf8(&b) {
                                    val = js(st);
                                }
                            }
                        }
                    }
                }
                if !first {
                    out.push(',');
                }
                first = false;
                let _ = write!(
                    out,
                    "{{\"path\":{},\"ty\":{},\"v\":{},\"span\":{}}}",
                    js(&format!("static:{}", cx.path(did))),
                    js(&cx.tys(ty)),
                    val,
                    cx.span(tcx.def_span(did))
                );
                continue;
            }
            if !matches!(kind, DefKind::Const { .. } | DefKind::AssocConst { .. }) {
                continue;
            }
            // skip generic-dependent consts
            if tcx.generics_of(did).own_requires_monomorphization() || tcx.generics_of(did).parent_count > 0 && {
                let p = tcx.parent(did);
                tcx.generics_of(p).own_requires_monomorphization()
            } {
                continue;
            }
            let ty = tcx.type_of(did).instantiate_identity().skip_norm_wip();
            let mut val = String::from("null");
            if let Ok(v) = tcx.const_eval_poly(did) {
                match v {
                    ConstValue::Scalar(rustc_middle::mir::interpret::Scalar::Int(i)) => {
                        let size = i.size();
                        let bits = i.to_bits(size);
                        if ty.is_signed() {
                            val = format!("{}", size.sign_extend(bits) as i128);
                        } else if ty.is_bool() {
                            val = if bits != 0 { "true".into() } else { "false".into() };
                        } else {
                            val = format!("{}", bits);
                        }
                    }
                    ConstValue::Slice { alloc_id, meta } => {
                        if let Some(b) = cx.alloc_bytes(alloc_id, 0, meta as usize) {
                            if let Ok(s) = std::str::from_utf8(&b) {
                                val = js(s);
                            }
                        }
                    }
                    _ => {}
                }
            }
            if !first {
                out.push(',');
            }
            first = false;
            let _ = write!(
                out,
                "{{\"path\":{},\"ty\":{},\"v\":{},\"span\":{}}}",
                js(&cx.path(did)),
                js(&cx.tys(ty)),
                val,
                cx.span(tcx.def_span(did))
            );
        }
        out.push_str("],\"impls\":[");
        let mut first = true;
        for ldid in items.definitions() {
            let did = ldid.to_def_id();
            if let DefKind::Impl { of_trait } = tcx.def_kind(did) {
                let selfty = tcx.type_of(did).instantiate_identity().skip_norm_wip();
                let tr = if of_trait {
                    cx.path(tcx.impl_trait_ref(did).instantiate_identity().skip_norm_wip().def_id)
                } else {
                    String::new()
                };
                if !first {
                    out.push(',');
                }
                first = false;
                let mut ms = String::from("[");
                for (i, m) in tcx.associated_item_def_ids(did).iter().enumerate() {
                    if i > 0 {
                        ms.push(',');
                    }
                    ms.push_str(&js(&cx.path(*m)));
                }
                ms.push(']');
                let _ = write!(
                    out,
                    "{{\"self\":{},\"trait\":{},\"items\":{},\"span\":{}}}",
                    js(&cx.tys(selfty)),
                    js(&tr),
                    ms,
                    cx.span(tcx.def_span(did))
                );
            }
        }
        out.push_str("]}");
        std::fs::write(&self.out, out.as_bytes()).expect("write facts");
        Compilation::Continue
    }
}

struct NoCb;
impl rustc_driver::Callbacks for NoCb {}

fn main() {
    let mut args: Vec<String> = std::env::args().collect();
    // RUSTC_WORKSPACE_WRAPPER: argv[1] = path of rustc. Direct use: argv[1] may already be a flag.
    if args.len() > 1 && !args[1].starts_with('-') && (args[1].ends_with("rustc") || args[1].contains("/rustc")) {
        args.remove(1);
    }
    let want = std::env::var("DISCRET_FACTS_CRATE").unwrap_or_else(|_| "discret".to_string());
    let mut crate_name = String::new();
    for i in 0..args.len() {
        if args[i] == "--crate-name" && i + 1 < args.len() {
            crate_name = args[i + 1].clone();
        }
    }
    let is_probe = args.iter().any(|a| a == "-vV" || a.starts_with("--print"));
    let out = std::env::var("DISCRET_FACTS_OUT").ok();
    if crate_name == want && !is_probe && out.is_some() {
        args.push("-Zmir-opt-level=0".to_string());
        args.push("-Awarnings".to_string());
        let mut cb = Cb { out: out.unwrap() };
        rustc_driver::run_compiler(&args, &mut cb);
    } else {
        let mut cb = NoCb;
        rustc_driver::run_compiler(&args, &mut cb);
    }
}
