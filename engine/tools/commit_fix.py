#!/usr/bin/env python3
"""commit_fix.py <PROP> <Fnn-name> <key> <what failed> -- <commit message>
Commits the working-tree change of /repo as one `fix:` commit, stores its reverse as a self-test mutant
(the unrepaired code must be reported by <key>) and records a `fixed` entry in known_findings.json."""
import json, subprocess, sys, os
V = "/verif"
a = sys.argv[1:]
i = a.index("--")
prop, name, key, what = a[:i]
msg = " ".join(a[i + 1:])
assert msg.startswith("fix:")
rev = subprocess.check_output(["git", "-C", "/repo", "diff", "-R"], text=True)
assert rev.strip(), "no change in /repo"
open(os.path.join(V, "selftest", "mutants", "%s-%s-reverted.patch" % (prop, name)), "w").write(
    "# property: %s\n# expect: %s\n# the unrepaired code of fix %s\n" % (prop, key, name) + rev)
subprocess.check_call(["git", "-C", "/repo", "commit", "-qam", msg])
h = subprocess.check_output(["git", "-C", "/repo", "rev-parse", "--short", "HEAD"], text=True).strip()
kf = json.load(open(os.path.join(V, "known_findings.json")))
kf["findings"].append({"property": prop, "key": key, "status": "fixed", "commit": h, "what": what,
                       "line": "fixed: property=%s %s %s" % (prop, h, what)})
json.dump(kf, open(os.path.join(V, "known_findings.json"), "w"), indent=1)
print("committed", h)
