#!/bin/sh
# hashseed_sweep.sh [seeds...] : run every quick check under several PYTHONHASHSEED values and compare the verdict of every obligation
cd /verif
SEEDS=${@:-0 1 2 3 4 5 6 7}
./check C01 >/dev/null 2>&1
mkdir -p /tmp/hs
for s in $SEEDS; do
  ( for i in 01 02 03 04 05 06 07 08 09 10 11 12 13 14 15 16 17 18 19 20; do
      PYTHONHASHSEED=$s VERIF_EVIDENCE_DIR=/tmp/hs/$s ./check C$i > /tmp/hs/out_${s}_C$i.log 2>&1
      echo "rc=$?" >> /tmp/hs/out_${s}_C$i.log
    done ) &
done
wait
for i in 01 02 03 04 05 06 07 08 09 10 11 12 13 14 15 16 17 18 19 20; do
  for s in $SEEDS; do grep -E "violated:|rc=|obligations" /tmp/hs/out_${s}_C$i.log | sed 's/([0-9.]*s)//' | md5sum | cut -c1-8; done | sort | uniq -c | tr '\n' ' '
  echo " C$i"
done
