#!/usr/bin/env python3
"""gen_agent_prompt.py seed|neutral <ID> <worktree> : prints the prompt for a sub-agent (property text only, nothing from /verif)"""
import glob, json, os, sys
kind, pid, w = sys.argv[1:4]
V = "/verif"
props = {json.loads(l)["id"]: json.loads(l) for l in open(V + "/properties.jsonl")}
p = props[pid]
t = open(V + "/notes/agent_prompt_%s.md" % kind).read()
tried = []
for mp in sorted(glob.glob(V + "/seeded/%s-*/meta.json" % pid)):
    m = json.load(open(mp))
    tried.append(m["summary"].split(". ")[0][:300])
extra = os.path.join(V, "notes", "tried_extra.json")
if os.path.exists(extra):
    tried += json.load(open(extra)).get(pid, [])
tr = "(none yet)" if not tried else "".join("\n   - " + x for x in tried)
print(t.replace("{W}", w).replace("{ID}", pid).replace("{TITLE}", p["title"]).replace("{STATEMENT}", p["statement"]).replace("{TRIED}", tr))
