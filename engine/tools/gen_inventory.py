#!/usr/bin/env python3
"""gen_inventory.py: write engine/rules/baseline_functions.txt = the functions of the crate the rules were reviewed
against (functions that are not listed are treated as extracted helpers and inlined into their callers)."""
import os, sys
V = "/verif"
sys.path.insert(0, V + "/engine/lib")
import facts, inline
data, info = facts.load(quiet=True)
ids = sorted({inline.normalize(b["id"]) for b in data["bodies"] if b["kind"] in ("Fn", "AssocFn")})
out = os.path.join(V, "engine", "rules", "baseline_functions.txt")
open(out, "w").write("# functions of discret at the reviewed tree (%s); one normalized def path per line\n" % info["key"] + "\n".join(ids) + "\n")
print(len(ids), "functions ->", out)
