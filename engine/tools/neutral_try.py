#!/usr/bin/env python3
"""neutral_try.py <patch> : apply a behaviour-preserving patch to /repo, run every check (normal mode), print violated keys, revert"""
import re, subprocess, sys, os
V = "/verif"
p = sys.argv[1]
subprocess.check_call(["git", "-C", "/repo", "diff", "--quiet"])
r = subprocess.run(["git", "-C", "/repo", "apply", "--3way", p], stdout=subprocess.PIPE, stderr=subprocess.STDOUT, text=True)
if r.returncode != 0:
    print("DOES NOT APPLY:", r.stdout[-400:]); subprocess.run(["git", "-C", "/repo", "checkout", "--", "."]); sys.exit(2)
try:
    tot = 0
    for i in range(1, 21):
        pid = "C%02d" % i
        o = subprocess.run([V + "/check", pid], cwd=V, stdout=subprocess.PIPE, stderr=subprocess.STDOUT, text=True)
        if o.returncode == 2:
            print(pid, "NO VERDICT", o.stdout[-600:]); break
        v = re.findall(r"violated: (.+)", o.stdout)
        tot += len(v)
        if v:
            print(pid, len(v))
            for m in re.finditer(r"violated: (.+)\n\s+at (.+)\n\s+(.+)", o.stdout):
                print("   ", m.group(1), "|", m.group(2), "|", m.group(3)[:230])
    print("total false alarms:", tot)
finally:
    subprocess.run(["git", "-C", "/repo", "reset", "-q", "--hard", "HEAD"])
    subprocess.run(["git", "-C", "/repo", "clean", "-fdq", "src"])
