#!/bin/sh
# try_seed.sh <patch file> [props...] : apply the patch to /repo, run the quick checks (all 20 by default), revert; prints violated keys
P=$1; shift
PROPS=${@:-C01 C02 C03 C04 C05 C06 C07 C08 C09 C10 C11 C12 C13 C14 C15 C16 C17 C18 C19 C20}
git -C /repo diff --quiet || { echo "/repo not clean"; exit 2; }
git -C /repo apply "$P" || exit 2
cd /verif
./check C01 >/dev/null 2>&1   # build the facts once
echo $PROPS | tr ' ' '\n' | xargs -P 6 -I{} sh -c './check {} > /tmp/try_{}.log 2>&1; echo "{} rc=$? $(grep "violated:" /tmp/try_{}.log | tr -s " " | tr "\n" ";")"' | sort
git -C /repo checkout -- . ; git -C /repo clean -fdq src
