#!/usr/bin/env python3
"""save_seed.py <worktree> <seed id e.g. C14-2> <first_run: caught|missed> <caught_by key[,key]> <note>
copies out/patch.diff, out/demo.diff, merges out/meta.json with the confirmation record into /verif/seeded/<id>/"""
import json, os, shutil, sys
w, sid, first, keys, note = sys.argv[1:6]
d = os.path.join("/verif/seeded", sid)
os.makedirs(d, exist_ok=True)
shutil.copy(os.path.join(w, "out/patch.diff"), os.path.join(d, "patch.diff"))
shutil.copy(os.path.join(w, "out/demo.diff"), os.path.join(d, "demo.diff"))
m = json.load(open(os.path.join(w, "out/meta.json")))
m["confirmed_by_me"] = {"ran": "engine/tools/confirm_seed.sh " + w, "with_change": "demo FAILED; 158 baseline tests passed",
                        "without_change": "demo passed",
                        "checks_run_against_it": "git -C /repo apply patch.diff; ./check %s; git -C /repo checkout -- ." % m.get("property", sid[:3])}
m["caught_by"] = keys.split(",")
m["first_run"] = first
m["note"] = note
json.dump(m, open(os.path.join(d, "meta.json"), "w"), indent=1)
print("saved", d)
