#!/bin/sh
# confirm_seed.sh <worktree> : re-run the seeded change's claims in its own worktree (build output stays there)
W=$1
cd $W || exit 2
export CARGO_TARGET_DIR=$W/target CARGO_NET_OFFLINE=true
git stash list >/dev/null 2>&1
echo "== state: both diffs applied?"; git apply --check -R out/patch.diff && git apply --check -R out/demo.diff && echo applied
echo "== with change: demo"; cargo test --offline --lib seeded_demo 2>&1 | grep -E "^test result|^test .*(FAILED|ok)$" | head -5
echo "== with change: baseline"; cargo test --offline --lib -- --skip seeded_demo 2>&1 | grep -E "^test result" | head -2
git apply -R out/patch.diff
echo "== without change: demo"; cargo test --offline --lib seeded_demo 2>&1 | grep -E "^test result|^test .*(FAILED|ok)$" | head -5
git apply out/patch.diff
echo "== done"
