#!/usr/bin/env python3
"""mutants_local.py <PROP>: apply each mutant / seeded / neutral patch of PROP to /repo (must be clean), run ./check PROP
normally and with all locals renamed, revert.  Prints one line per patch.  (Development aid; the thorough tier does the same in scratch copies.)"""
import glob, json, os, re, subprocess, sys
V = "/verif"
prop = sys.argv[1]
subprocess.check_call(["git", "-C", "/repo", "diff", "--quiet"])
items = []
for p in sorted(glob.glob(V + "/selftest/mutants/%s-*.patch" % prop)):
    exp = [l.split(":", 1)[1].strip() for l in open(p) if l.startswith("# expect:")]
    items.append((os.path.basename(p), p, exp[0] if exp else None, "mutant"))
for p in sorted(glob.glob(V + "/selftest/neutral/%s-*.patch" % prop)):
    items.append((os.path.basename(p), p, None, "neutral"))
for mp in sorted(glob.glob(V + "/seeded/*/meta.json")):
    m = json.load(open(mp))
    ks = [k for k in m.get("caught_by", []) if k.startswith(prop + "/")]
    if ks:
        items.append(("seeded/" + os.path.basename(os.path.dirname(mp)), os.path.join(os.path.dirname(mp), "patch.diff"), ks[0], "mutant"))
bad = 0
for name, p, exp, kind in items:
    r = subprocess.run(["patch", "-p1", "-s", "-F0", "--no-backup-if-mismatch", "-i", p], cwd="/repo", stdout=subprocess.PIPE, stderr=subprocess.STDOUT, text=True)
    try:
        if r.returncode != 0:
            print("SKIP   %s (does not apply)" % name); continue
        res = []
        for env in ({}, {"DISCRET_SCRAMBLE_LOCALS": "1"}):
            e = dict(os.environ); e.update(env)
            o = subprocess.run([V + "/check", prop], cwd=V, env=e, stdout=subprocess.PIPE, stderr=subprocess.STDOUT, text=True).stdout
            v = sorted(set([x.strip() for x in re.findall(r"violated: (.+)", o)]))
            res.append(v)
        if kind == "neutral":
            ok = not res[0] and not res[1]
        else:
            ok = any(exp in k for k in res[0]) and res[0] == res[1]
        bad += 0 if ok else 1
        print("%s %s normal=%d renamed=%d %s" % ("ok    " if ok else "FAIL  ", name, len(res[0]), len(res[1]), "" if ok else "expect=%s normal=%s renamed=%s" % (exp, res[0][:4], res[1][:4])))
    finally:
        subprocess.run(["git", "-C", "/repo", "checkout", "--", "."])
        subprocess.run(["git", "-C", "/repo", "clean", "-fdq", "src"])
print("failures:", bad)
