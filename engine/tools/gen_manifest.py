#!/usr/bin/env python3
"""regenerate MANIFEST.json from engine/rules/claims.json (kept in one place so it is always valid)"""
import json, os
V = os.path.dirname(os.path.dirname(os.path.dirname(os.path.abspath(__file__))))
claims = json.load(open(os.path.join(V, "engine", "rules", "claims.json")))
ids = [json.loads(l)["id"] for l in open(os.path.join(V, "properties.jsonl"))]
checks = []
na = []
for i in ids:
    c = claims.get(i)
    if c and c.get("claimed") and os.path.exists(os.path.join(V, "engine", "rules", i.lower() + ".py")):
        checks.append({
            "property_id": i,
            "quick_cmd": "./check %s --tier quick" % i,
            "thorough_cmd": "./check %s --tier thorough" % i,
            "evidence_file": "evidence/%s.json" % i,
            "replay_cmd_template": "./check --replay {path}",
            "engine": "mir-rules",
            "level_claimed": {"category": "other", "text": c["level_text"], "design_ref": "DESIGN.md section 2, " + i},
            "level_note": c["level_note"],
            "technique": c["technique"],
        })
    else:
        na.append({"property_id": i, "reason": (c or {}).get("na_reason", "check under construction (rules not yet committed)")})
m = {
    "version": 1,
    "setup_cmd": "./setup.sh",
    "hooks": {
        "guard": "discret_verif",
        "enable": "none needed: the checks read the shipped source through the compiler (no instrumentation)",
        "baseline_off_cmd": "cd /repo && cargo test --workspace --no-fail-fast --offline",
        "source_commits": [],
        "add_only": True,
    },
    "engines": [{
        "name": "mir-rules", "path": "engine",
        "serves_properties": [c["property_id"] for c in checks],
        "kind_free_text": "rustc_private fact extractor (built MIR, resolved callees, constants, types) injected with RUSTC_WORKSPACE_WRAPPER under cargo +nightly check, plus repository-specific CFG/dominance/control-dependence/provenance rules in Python",
    }],
    "checks": checks,
    "not_applicable": na,
    "notes": "Static analysis only: every check rebuilds the MIR facts from /repo's working tree (cached by content hash) and decides rule instances on them; exit 2 = the tree does not compile (no verdict). Known findings: known_findings.json.",
}
json.dump(m, open(os.path.join(V, "MANIFEST.json"), "w"), indent=1)
print("checks:", [c["property_id"] for c in checks], "n/a:", [n["property_id"] for n in na])
