#!/usr/bin/env python3
"""mk_neutral.py <PROP[,PROP..]> <name> <file> <<'X' old ===== new X : behaviour-preserving variant; every listed check must stay silent"""
import os, subprocess, sys
V = "/verif"
props, name, path = sys.argv[1:4]
spec = sys.stdin.read()
subprocess.check_call(["git", "-C", "/repo", "diff", "--quiet"])
try:
    for block in spec.split("\n#####\n"):
        f = path
        if block.startswith("@file "):
            first, block = block.split("\n", 1)
            f = first[6:].strip()
        old, new = block.split("\n=====\n")
        old = old.strip("\n"); new = new.strip("\n")
        fp = os.path.join("/repo", f)
        s = open(fp).read()
        if s.count(old) != 1:
            print("old text occurs %d times in %s" % (s.count(old), f)); sys.exit(3)
        open(fp, "w").write(s.replace(old, new))
    diff = subprocess.check_output(["git", "-C", "/repo", "diff"], text=True)
    allok = True
    for prop in props.split(","):
        r = subprocess.run([os.path.join(V, "check"), prop], cwd=V, stdout=subprocess.PIPE, stderr=subprocess.STDOUT, text=True)
        hits = [l for l in r.stdout.splitlines() if l.strip().startswith("violated:")]
        print(prop, "rc=%d violated=%d" % (r.returncode, len(hits)))
        for l in hits[:8]:
            print("   ", l.strip())
        if r.returncode == 2:
            print(r.stdout[-1500:])
        allok = allok and r.returncode == 0
        if r.returncode == 0:
            open(os.path.join(V, "selftest", "neutral", "%s-%s.patch" % (prop, name)), "w").write("# property: %s\n# neutral variant: must stay silent\n" % prop + diff)
finally:
    subprocess.check_call(["git", "-C", "/repo", "checkout", "--", "."])
