#!/usr/bin/env python3
"""debug helper: show.py <fn regex> [--guards] [--all] : print the live calls of matching bodies"""
import sys, os, re
sys.path.insert(0, os.path.join(os.path.dirname(os.path.abspath(__file__)), "..", "lib"))
import facts, mir
d, info = facts.load(quiet=True)
P = mir.Program(d)
pat = sys.argv[1]
opts = sys.argv[2:]
for b in P.find(pat):
    print("==", b.id, b.kind, b.loc(), "blocks", b.n)
    if "--raw" in opts:
        for i, bl in enumerate(b.blocks):
            print(i, bl)
        continue
    for bi, t in sorted(b.live_calls(), key=lambda x: (b.line_of(x[0]), x[0])):
        name = mir.callee_name(t)
        if "--all" not in opts and ((b.expn(bi).startswith("m:") and "format" in b.expn(bi)) or "d:Await" in b.expn(bi)):
            continue
        args = ", ".join(mir.term_str(a) for a in b.call_args(bi))
        print("  bb%-4d L%-5d %s(%s) %s" % (bi, b.line_of(bi), mir.short(name), args[:200], b.expn(bi)))
        if "--guards" in opts:
            for s, vals, term in b.guards(bi):
                dv = mir.discr_variants(term, vals)
                print("        if %s  =>  %s" % (mir.term_str(term)[:160], dv[1] if dv else vals))
