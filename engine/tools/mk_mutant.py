#!/usr/bin/env python3
"""mk_mutant.py <PROP> <name> <file under /repo> <expected key substring> <<'X'
<old text>
=====
<new text>
X
Creates selftest/mutants/<PROP>-<name>.patch (unless it exists), applies it to /repo, runs ./check PROP,
reverts, and reports whether a VIOLATION with the expected key substring was printed.
Several replacements: separate blocks with a line '#####' (each block 'old ===== new'); a block may start with '@file <path>'."""
import os, subprocess, sys
V = "/verif"
prop, name, path, expect = sys.argv[1:5]
spec = sys.stdin.read()
pfile = os.path.join(V, "selftest", "mutants", "%s-%s.patch" % (prop, name))
subprocess.check_call(["git", "-C", "/repo", "diff", "--quiet"])
try:
    for block in spec.split("\n#####\n"):
        f = path
        if block.startswith("@file "):
            first, block = block.split("\n", 1)
            f = first[6:].strip()
        old, new = block.split("\n=====\n")
        old = old.strip("\n"); new = new.strip("\n")
        fp = os.path.join("/repo", f)
        s = open(fp).read()
        if s.count(old) != 1:
            print("old text occurs %d times in %s" % (s.count(old), f)); sys.exit(3)
        open(fp, "w").write(s.replace(old, new))
    diff = subprocess.check_output(["git", "-C", "/repo", "diff"], text=True)
    hdr = "# property: %s\n# expect: %s\n" % (prop, expect)
    open(pfile, "w").write(hdr + diff)
    r = subprocess.run([os.path.join(V, "check"), prop], cwd=V, stdout=subprocess.PIPE, stderr=subprocess.STDOUT, text=True)
    hits = [l for l in r.stdout.splitlines() if l.strip().startswith("violated:")]
    ok = any(expect in l for l in hits)
    print("rc=%d violated=%d expected-key-hit=%s" % (r.returncode, len(hits), ok))
    for l in hits[:12]:
        print("  ", l.strip())
    if r.returncode == 2:
        print(r.stdout[-3000:])
finally:
    subprocess.check_call(["git", "-C", "/repo", "checkout", "--", "."])
