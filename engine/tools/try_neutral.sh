#!/bin/sh
# try_neutral.sh <patch file> [props...] : apply the patch to the side worktree /tmp/seed/nrepo (HEAD of /repo), run the quick checks on it
# (DISCRET_REPO, evidence in a scratch dir), revert.  Prints the violated keys: a behaviour-preserving variant must print none.
P=$1; shift
PROPS=${@:-C01 C02 C03 C04 C05 C06 C07 C08 C09 C10 C11 C12 C13 C14 C15 C16 C17 C18 C19 C20}
N=/tmp/seed/nrepo
[ -d $N ] || git -C /repo worktree add --detach $N HEAD >/dev/null 2>&1
git -C $N checkout -q --detach $(git -C /repo rev-parse HEAD) && git -C $N reset -q --hard && git -C $N clean -fdq src
git -C $N apply "$P" || { echo "patch does not apply"; exit 2; }
cd /verif
export DISCRET_REPO=$N VERIF_EVIDENCE_DIR=/tmp/seed/nev
mkdir -p /tmp/seed/nev
./check C01 >/dev/null 2>&1
echo $PROPS | tr ' ' '\n' | xargs -P 6 -I{} sh -c './check {} > /tmp/seed/nev/try_{}.log 2>&1; echo "{} rc=$? $(grep "violated:" /tmp/seed/nev/try_{}.log | tr -s " " | tr "\n" ";")"' | sort | grep -v "rc=0 $"
git -C $N reset -q --hard
