#!/bin/sh
# mk_seed_wt.sh <name> : scratch worktree /tmp/seed/<name> of /repo HEAD with a warm copy of the base target dir
set -e
W=/tmp/seed/$1
git -C /repo worktree add --detach $W HEAD >/dev/null 2>&1
cp -r /tmp/seed/base/target $W/target
echo $W
