#!/usr/bin/env python3
"""rename_diff.py [PROP...]: (key, verdict) differences between the normal run and the run with all locals renamed"""
import importlib, os, sys
V = "/verif"
sys.path.insert(0, V + "/engine/lib"); sys.path.insert(0, V + "/engine")
import facts, mir, report, selftest
data, info = facts.load(quiet=True)
d2 = selftest.renamed(data)
props = sys.argv[1:] or ["C%02d" % i for i in range(1, 21)]
for p in props:
    mod = importlib.import_module("rules." + p.lower())
    a = selftest.verdicts(p, mod, data); b = selftest.verdicts(p, mod, d2)
    va = set((o["key"], o["ok"]) for o in a.obligations); vb = set((o["key"], o["ok"]) for o in b.obligations)
    print(p, len(va), "obligations;", len(va ^ vb), "differences")
    for x in sorted(va - vb)[:8]: print("   normal only :", x)
    for x in sorted(vb - va)[:8]: print("   renamed only:", x)
