"""C17 — full-text search returns exactly the rows whose current text matches (pairing rules)."""
import re
import mir
import sql
from mir import term_str, strip_refs, callee_name, field_path, full_path

FTS_DELETE = re.compile(r"INSERT\s+INTO\s+_node_fts\s*\(\s*_node_fts\s*,\s*rowid\s*,\s*text\s*\)\s*VALUES\s*\(\s*'delete'", re.I)
FTS_INSERT = re.compile(r"INSERT\s+INTO\s+_node_fts\s*\(\s*rowid\s*,\s*text\s*\)", re.I)


def run(P, C, tier):
    C.explanation = (
        "The full-text index is content-less and maintained by hand, so its correctness is a pairing rule between row writes and "
        "index writes, decidable on the statements each function executes: every function deleting rows must issue the index "
        "'delete' command for them, every row write of an indexed entity must pass the entity's indexing flag and the previous "
        "and current texts, and inside Node::write the index delete precedes the index insert which precedes the row update. "
        "The matching behaviour of FTS5 itself is trusted.")
    C.rule("R1", "every function executing DELETE FROM _node also issues the FTS 'delete' command for the row")
    C.rule("R2", "every Node::write for a user entity receives the entity's enable_full_text as `index` and the extracted texts; rows built for synchronisation carry them too")
    C.rule("R3", "in Node::write, on the update branch, the 'delete' of the previous text precedes the insert of the current text and both precede the row UPDATE; the insert branch indexes with the new rowid")
    C.rule("R4", "previous and current texts are extract_json of the previous and current _json")
    # ---- R1
    n = 0
    for b in P.bodies.values():
        if not b.file.startswith("src/database/"):
            continue
        sts = [(bi, sql.norm(t)) for bi, _, t, _, _ in sql.statements(b) if t]
        dels = [x for x in sts if re.search(r"DELETE\s+FROM\s+_node\b", x[1], re.I)]
        if not dels:
            continue
        n += 1
        C.saw(b)
        fts = [x for x in sts if FTS_DELETE.search(x[1])]
        C.ob("R1", "delete-pairs:" + mir.short(b.id), bool(fts), b.loc(dels[0][0]),
             "DELETE FROM _node here%s" % (" with the FTS 'delete' command" if fts else " WITHOUT the FTS 'delete' command: the text stays attached to a rowid that SQLite reuses for the next inserted row"))
    C.floor("R1", "functions deleting rows", n, 2)
    # ---- R2
    try:
        nm = P.body("mutation_query::NodeToMutate::write")
        C.saw(nm)
        ws = nm.calls_to(r"node::Node::write$")
        ok = len(ws) == 1
        if ok:
            a = nm.call_args(ws[0][0])
            ok = field_path(a[2]).endswith("self.enable_full_text") and field_path(a[3]).endswith("self.old_fts_str") and field_path(a[4]).endswith("self.node_fts_str")
        C.ob("R2", "local-mutation-indexes", ok, nm.loc(), "NodeToMutate::write passes (enable_full_text, old_fts_str, node_fts_str)")
        cn = P.body("MutationQuery::create_node_to_mutate")
        C.saw(cn)
        sets = 0
        for bi in cn.live_blocks():
            for si, st in enumerate(cn.blocks[bi]["s"]):
                if st["lhs"][-1:] == [".enable_full_text"]:
                    dt = cn.def_term(bi, si, st["rv"], 0)
                    if field_path(dt).endswith(".enable_full_text") and "EntityMutation" in cn.root_type(mir.strip(dt)):
                        sets += 1
                rv = st["rv"]
                if rv["r"] == "aggr" and rv.get("adt", "").endswith("NodeToMutate") and "enable_full_text" in rv["fields"]:
                    t = cn.def_term(bi, si, rv, 0)
                    v = t[4][t[5].index("enable_full_text")]
                    if field_path(v).endswith(".enable_full_text") and "EntityMutation" in cn.root_type(mir.strip(v)):
                        sets += 1
        C.ob("R2", "flag-from-entity", sets >= 2, cn.loc(), "enable_full_text of the row to mutate is the entity's flag on both the update and the create path (%d sites)" % sets)
    except mir.MissingAnchor as e:
        C.anchor_missing("R2", "NodeToMutate::write", e)
    # rows for synchronisation
    lits = []
    for b in P.bodies.values():
        for bi in b.live_blocks():
            for si, st in enumerate(b.blocks[bi]["s"]):
                rv = st["rv"]
                if rv["r"] == "aggr" and rv.get("adt") == "database::node::NodeToInsert" and not st["at"][1]:
                    t = b.def_term(bi, si, rv, 0)
                    f = dict(zip(t[5], t[4]))
                    lits.append((b, bi, f))
    later = False
    for b in P.bodies.values():
        for bi in b.live_blocks():
            for si, st in enumerate(b.blocks[bi]["s"]):
                if st["lhs"][-1:] in ([".index"], [".node_fts_str"]) and "NodeToInsert" in " ".join(b.locals[st["lhs"][0]:st["lhs"][0] + 1]):
                    later = True
    const_false = [(b, bi) for b, bi, f in lits if f.get("index", ("?",))[0] == "const" and f["index"][1] is False]
    C.ob("R2", "sync-not-indexed", not (const_false and not later) and bool(lits), const_false[0][0].loc(const_false[0][1]) if const_false else "",
         "NodeToInsert is built in %d places, %d of them with index: false and node_fts_str: None, and no later assignment sets them: rows received from peers (new or replacing indexed rows) are never searchable, and a replaced row keeps its stale text" % (len(lits), len(const_false)))
    C.floor("R2", "NodeToInsert construction sites", len(lits), 2)
    # ---- R3
    try:
        nw = P.body("node::Node::write")
        C.saw(nw)
        sts = sql.statements(nw)
        ex = {}
        for bi, cal, text, holes, term in sts:
            t = sql.norm(text or "")
            kind = "fts-delete" if FTS_DELETE.search(t) else "fts-insert" if FTS_INSERT.search(t) else "update" if re.search(r"UPDATE\s+_node\b", t, re.I) else "insert" if re.search(r"INSERT\s+INTO\s+_node\b", t, re.I) else None
            if kind:
                ex.setdefault(kind, []).append(bi)
        C.ob("R3", "statements-present", all(k in ex for k in ("fts-delete", "fts-insert", "update", "insert")), nw.loc(), "statements of Node::write: %s" % {k: len(v) for k, v in ex.items()}, nontrivial=False)
        if all(k in ex for k in ("fts-delete", "fts-insert", "update", "insert")):
            d = ex["fts-delete"][0]
            u = ex["update"][0]
            ins_upd = [x for x in ex["fts-insert"] if u in nw.reach_after(x)]
            ins_new = [x for x in ex["fts-insert"] if nw.dominates(ex["insert"][0], x)]
            ok = bool(ins_upd) and all(d not in nw.reach_after(x) for x in ins_upd) and u in nw.reach_after(d) and all(u not in nw.reach_after(u2) for u2 in [u])
            C.ob("R3", "update-order", ok, nw.loc(d), "'delete' of the previous text is never executed after the insert of the current text, and the row UPDATE comes after both")
            C.ob("R3", "insert-branch-indexes", bool(ins_new), nw.loc(ex["insert"][0]), "a new row is indexed after its INSERT (with the new rowid)")
            # both index statements are guarded by `index` (the only bool parameter of Node::write)
            flag = nw.the_local("the index flag of Node::write", ty=r"^bool$", param=True)
            for k, blocks in (("fts-delete", [d]), ("fts-insert", ex["fts-insert"])):
                for bi in blocks:
                    g = nw.guards(bi)
                    ok = any(mir.cond_atoms(term, vals)[0][:2] == ("param", flag) and mir.cond_atoms(term, vals)[1] is True for s, vals, term in g)
                    C.ob("R3", "%s-under-index-flag#%d" % (k, blocks.index(bi)), ok, nw.loc(bi), "index statement executed only when `index` is set")
    except mir.MissingAnchor as e:
        C.anchor_missing("R3", "Node::write", e)
    # ---- R4
    try:
        gm = P.body("MutationQuery::get_mutate_query")
        C.saw(gm)
        oks = {"old_fts_str": False, "node_fts_str": False}
        for bi in gm.live_blocks():
            for si, st in enumerate(gm.blocks[bi]["s"]):
                last = st["lhs"][-1] if len(st["lhs"]) > 1 else ""
                if last in (".old_fts_str", ".node_fts_str"):
                    t = gm.def_term(bi, si, st["rv"], 0)
                    t_full = gm.def_term(bi, si, st["rv"], 0, expand_vars=True)      # through a helper analysed inlined (`Some(Self::fts_text(&v)?)`)
                    v = [x for x in mir.subterms(t) if x[0] == "var"] + [x for x in mir.subterms(t_full) if x[0] == "var"]
                    if mir.has_call(t_full, r"extract_json$") is not None:
                        oks[last[1:]] = True
                    # the variable was filled by extract_json(&json, &mut var)
                    for x in v:
                        for eb, et in gm.calls_to(r"extract_json$"):
                            a = gm.call_args(eb)
                            if strip_refs(a[1])[:3] == x[:3]:
                                oks[last[1:]] = True
        for k, v in oks.items():
            C.ob("R4", k + "-from-extract_json", v, gm.loc(), "%s is the text extracted by extract_json" % k)
        # whenever the row's json is rewritten the current text is recomputed, and the previous text is never discarded
        json_stores = []
        fts_stores = []
        none_stores = []
        for bi in sorted(gm.live_blocks()):
            for si, st in enumerate(gm.blocks[bi]["s"]):
                last = st["lhs"][-1] if len(st["lhs"]) > 1 else ""
                if last == "._json":
                    json_stores.append(bi)
                if last == ".node_fts_str":
                    fts_stores.append(bi)
                if last in (".old_fts_str", ".node_fts_str"):
                    t = strip_refs(gm.def_term(bi, si, st["rv"], 0))
                    if t[0] == "aggr" and t[3] == "None":
                        none_stores.append("%s:%d" % (gm.file, st["at"][0]))
        okret = mir.return_assignments(gm)["Ok"]
        ok = bool(json_stores) and bool(fts_stores) and bool(okret) and all(gm.must_pass(js, fts_stores, okret) or js in fts_stores for js in json_stores)
        C.ob("R4", "current-text-follows-every-json-rewrite", ok, gm.loc(json_stores[0]) if json_stores else gm.loc(),
             "every path that stores a new node._json also stores node_fts_str (the text of that json): %s" % ok)
        C.ob("R4", "texts-never-discarded", not none_stores, none_stores[0] if none_stores else gm.loc(),
             "old_fts_str / node_fts_str are never reset to None once extracted (sites: %s): without the previous text the 'delete' command of the content-less index cannot remove it" % (none_stores or "none"))
    except mir.MissingAnchor as e:
        C.anchor_missing("R4", "get_mutate_query", e)
    r5_index_flag(P, C)


def r5_index_flag(P, C):
    C.rule("R5", "whether an entity is indexed is fixed when the entity is declared: the model's enable_full_text is written only where the declaration is parsed. "
                 "Node::write skips BOTH the 'delete' of the old text and the insert of the new one while the flag is off, and nothing re-indexes rows afterwards, "
                 "so a flag that a later model version can switch off and on again leaves stale text matching and current text missing; "
                 "every consumer copies the flag from the model entity")
    writers = []
    for b in sorted(P.bodies.values(), key=lambda x: x.id):
        if "::tests::" in b.id or "_test::" in b.id or "seeded_demo" in b.id:
            continue
        for bi in sorted(b.live_blocks()):
            for si, st in enumerate(b.blocks[bi]["s"]):
                if st["lhs"][-1:] == [".enable_full_text"] and len(st["lhs"]) > 1:
                    root = b.locals[st["lhs"][0]]
                    # look through references to the struct that owns the field
                    owner = re.sub(r"^&(mut )?", "", root)
                    t = b.def_term(bi, si, st["rv"], 0, expand_vars=True)
                    writers.append((b, bi, owner, t))
    n = 0
    for b, bi, owner, t in writers:
        if owner.endswith("data_model_parser::Entity"):
            n += 1
            ok = b.id.endswith("DataModel::parse_entity")
            C.ob("R5", "index-flag-fixed-at-declaration:%s" % mir.short(b.id), ok, b.loc(bi),
                 "Entity.enable_full_text := %s in %s%s" % (term_str(t)[:50], mir.short(b.id), "" if ok else " -- a model update can now change the flag of an existing entity"))
        else:
            n += 1
            src = field_path(strip_refs(t))
            ok = src.endswith(".enable_full_text")
            C.ob("R5", "index-flag-copied-from-model:%s" % mir.short(b.id), ok, b.loc(bi), "%s.enable_full_text := %s" % (mir.short_type(owner), term_str(t)[:60]))
    C.floor("R5", "stores of an index flag", n, 3)
    r6_nested_flag(P, C)


def r6_nested_flag(P, C):
    C.rule("R6", "sibling builders agree: every function that completes an EntityMutation from the model entity (copies its short_name) also copies the model's "
                 "enable_full_text -- an EntityMutation keeps the default `true` otherwise, so a nested row of an entity declared no_full_text_index is indexed on creation, "
                 "and its nested update issues the FTS 'delete' for text that was never indexed (the engine answers `database disk image is malformed`)")
    n = 0
    for b in sorted(P.bodies.values(), key=lambda x: x.id):
        if "mutation_parser::MutationParser::" not in b.id or "::tests::" in b.id:
            continue
        shorts = []
        flags = []
        for bi in sorted(b.live_blocks()):
            for si, st in enumerate(b.blocks[bi]["s"]):
                if len(st["lhs"]) < 2:
                    continue
                root = re.sub(r"^&(mut )?", "", b.locals[st["lhs"][0]])
                if not root.endswith("mutation_parser::EntityMutation"):
                    continue
                if st["lhs"][-1] == ".short_name":
                    shorts.append((bi, st["lhs"][0], b.def_term(bi, si, st["rv"], 0)))
                if st["lhs"][-1] == ".enable_full_text":
                    flags.append((bi, st["lhs"][0], b.def_term(bi, si, st["rv"], 0)))
        for bi, tgt, t in shorts:
            if not field_path(strip_refs(t[2][0] if t[0] == "call" and t[2] else t)).endswith(".short_name"):
                continue
            n += 1
            ok = any(ft == tgt and field_path(strip_refs(fv)).endswith(".enable_full_text") for _, ft, fv in flags)
            C.ob("R6", "flag-copied-with-short-name:%s" % mir.short(b.id), ok, b.loc(bi),
                 "%s completes an EntityMutation from the model entity: short_name copied, enable_full_text copied: %s" % (mir.short(b.id), ok))
    C.floor("R6", "builders of an EntityMutation from the model", n, 3)
