"""C14 census table: panic-capable sites that are not discharged automatically.

Every entry: (function regex, kind regex, argument regex, class, reason).
  class I = infallible by construction, T = reviewed and trusted (depends on a stated assumption),
  F = finding (a hostile or unusual input reaches the panic).
A site matching no entry is a violation ("unclassified panic-capable site").  Keys never contain line numbers.
The argument regex is matched against the reconstructed receiver/first operand of the call, in which every variable is
named by its type (`‹Vec<u8>›`): the table never depends on how a local is spelled."""

TABLE = [
    # ---- generated code -------------------------------------------------------------------------------------
    (r".*", r"^tokio!$", r".*", "I",
     "internal panics of tokio::select!: reached only when every branch is disabled; no select! of the crate has branch preconditions"),
    # ---- locks and reply channels ---------------------------------------------------------------------------
    (r".*", r"^unwrap$", r"Mutex::lock\(", "T",
     "std::sync::Mutex poisoning: fails only after another thread panicked while holding the lock"),
    (r"(SignatureVerificationService::verify_\w+|GraphDatabaseService::sign|EventService::subcribe)::\{closure#0\}$", r"^unwrap$", r"^‹Result<.*RecvError>›$", "T",
     "reply of a service task: the sender is dropped only if that task died; relies on the service tasks not panicking (guarded by the other entries of this census)"),
    # ---- reload of room definitions -------------------------------------------------------------------------
    (r"(RoomAuthorisations::load_json|room::load_auth_from_json|room::load_user_from_json)$", r"^unwrap$", r"(Map::get|Value::as_|Option::unwrap)", "T",
     "shape of the JSON produced by the constant LOAD_QUERY over system entities whose rows were validated when written or ingested (RoomNode::parse / validate_room_mutation)"),
    # ---- parameters after validation (C14-R2) ---------------------------------------------------------------
    (r"(DeletionQuery::build|MutationQuery::base64_field|MutationQuery::get_mutate_query)$", r"^unwrap$", r"HashMap::get\(&\*‹Parameters›\.params", "I",
     "Variables::validate_params dominates (C14-R2): every declared variable is present"),
    (r"DeletionQuery::build$", r"^unwrap$", r"ParamValue::as_string", "I",
     "deletion variables are declared Base64 not nullable by the deletion parser; validate_params enforces a string"),
    (r"MutationQuery::get_mutate_query$", r"^unwrap$", r"ParamValue::as_string", "F",
     "FINDING nullable-json-param: a nullable Json field accepts ParamValue::Null (validate_params) but the value is unwrapped as a string: the reader thread executing the mutation panics; repeated, every reader thread is gone and queries hang"),
    (r"query::get_limit$", r"^unwrap$", r"ParamValue::as_i64", "I",
     "first/skip literals are integer tokens of the grammar (query.pest) stored as ParamValue::Integer"),
    # ---- unreachable! outside the parsers -------------------------------------------------------------------
    (r"MutationQuery::get_mutate_query$", r"^unreachable!$", r".*", "I",
     "C14-R9 decides it: every (field type, value kind) pair the mutation parser can build has an explicit arm"),
    (r"(MutationQuery::base64_field|InsertEntity::fill_json|query::(get_sub_system_entity_query|get_fields|get_where_filters|get_search_filter))$", r"^unreachable!$", r".*", "T",
     "arm excluded by the parsers' semantic checks: the field kind / value kind combination is fixed when the query or mutation is parsed against the data model"),
    (r"RoomAuthorisations::(validate_room_mutation|validate_authorisation_mutation)$", r"^unreachable!$", r".*", "T",
     "sub-entity field names of sys.Room / sys.Authorisation are fixed by SYSTEM_DATA_MODEL; the mutation parser rejects any other field"),
    (r"PeerManager::invite_accepted::\{closure#0\}$", r"^unreachable!$", r".*", "T",
     "invite_accepted is only sent for TokenType::Invite / OwnedInvite (initialise_connection arms)"),
    # ---- values established just before ---------------------------------------------------------------------
    (r"RoomAuthorisations::validate_authorisation_mutation$", r"^unwrap$", r"Room::get_auth_mut", "I", "the group was added by room.add_auth(..)? on the previous line"),
    (r"Node::filter_existing$", r"^unwrap$", r"HashSet::take", "I", "node_ids.get(&existing) returned Some in the enclosing `if let`"),
    (r"GraphDatabase::get_cached_query$", r"^unwrap$", r"LruCache::get", "I", "the entry was put in the cache just above when absent"),
    (r"GraphDatabase::new::\{closure#0\}$", r"^unwrap$", r"NonZero::new", "I", "LRU_SIZE is a non-zero constant"),
    (r"system_entities::.*add::\{closure#0\}$", r"^unwrap$", r"Vec::pop", "T", "result of a query on a row written just before; len checked"),
    (r"system_entities::.*create::\{closure#0\}$", r"^unwrap$", r"ResultParser::", "T", "result of the mutation executed on the previous line (own constant mutation text)"),
    (r"system_entities::init_allowed_peers::\{closure#0\}$", r"^unwrap$", r"_json", "I", "peer node built by Peer::create with a json body"),
    (r"room_node::prepare_auth_with_history$", r"^expect$", r"HashMap::get\(&\*‹Room›\.authorisations", "T",
     "old_auth comes from the stored definition of the same room (RoomNode::read of room.id): the group exists in the in-memory room built from the same rows"),
    (r"InboundQueryService::process_inbound::\{closure#0\}$", r"^unwrap$", r"^‹Option<Node>›$", "T", "the instance's own peer row, written at start-up by init_allowed_peers"),
    (r"LocalPeerService::synchronise_last_day::\{closure#0\}$", r"^unwrap$", r"last_data_date", "I",
     "reached only when remote.history_hash is Some and equal to the local one and remote.last_data_date == local.last_data_date; a local history hash implies a local last date"),
    (r"peer_connection_service::.*process_event::\{closure#0\}$", r"^unwrap$", r"uid_decode", "I", "room keys of DataModification are produced by uid_encode in the same process"),
    (r"DailyLog::sort_rooms::\{closure#0\}$", r"^unwrap$", r"partial_cmp", "I", "partial_cmp of two i64 is always Some"),
    (r"(EntityMutation::aliased_name|QueryField::name)$", r"^unwrap$", r"alias", "I", "guarded by is_some() in the same expression (if self.alias.is_some())"),
    (r"DataModel::(insert|update_with)$", r"^unwrap$", r"HashMap::(get|get_mut|remove)\(&\*?‹DataModel›\.namespace", "I", "namespace_ids and namespaces are filled together (insert / parse_internal)"),
    (r"DataModel::get_entity$", r"^index$", r"^&‹Vec<str>›$", "I", "indices 0 and 1 under split.len() == 2"),
    (r"Entity::insert_field$", r"^panic!$", r".*", "I", "C14-R10 decides it: add_field tests contains_key first, update removes every existing name from the new definition first; no other caller"),
    (r"data_model_parser::validate_json_for_entity$", r"^unwrap$", r"as_object", "I", "is_object() tested just above"),
    (r"Parameters::from_json$", r"^unwrap$", r"Number::as_", "I", "each as_x follows the matching is_x test"),
    (r"(NodeToInsert::update_daily_logs|<database::node::NodeToInsert as .*Writeable>::write|write)$", r"^unwrap$", r"‹[^›]*›\.node", "I", "is_none() -> return on the previous line"),
    (r"graph_database::build_path$", r"^index$", r"^&\*‹String›$", "I", "file name is the base64 of a 32 byte hash computed locally"),
    (r"MutationQuery::(to_json|result)$", r"^index$", r"‹Vec<InsertEntity>›", "I", "lengths compared equal just above; index from 0..len"),
    (r"InsertEntity::fill_json$", r"^index$", r"‹\(String, Vec<InsertEntity>\)›\.1", "T", "sub_nodes vectors are filled by the mutation builder with one element per parsed sub-entity (non empty for Entity fields)"),
    (r"query::get_paging$", r"^index$", r"(order_by|paging)", "I", "C14-R8 decides it: EntityQuery::finalize refuses more before/after values than order_by keys on every accepting path"),
    (r"EntityQuery::finalize$", r"^index$", r"order_by", "I", "index bounded by the loop over the same length"),
    (r"SingleQuery::add_param$", r"^index$", r"var_order", "I", "index from 0..var_order.len()"),
    (r"query::Query::read$", r"^index$", r"quer", "I", "index from 0..quer.len()"),
    (r"sqlite_database::add_base64_function::\{closure#\d\}$", r"^assert_eq!$", r".*", "I", "functions are registered with n_arg = 1: SQLite never calls them with another arity"),
    # ---- start-up with local configuration ------------------------------------------------------------------
    (r"(DatabaseReader::start|discret::.*new::\{closure#0\}|security::generate_x509_certificate|security::derive_pass_phrase|multicast::new_(listener|sender|socket)|endpoint::build_endpoint|Beacon::enpoint|PeerManager::multicast_announce::\{closure#0\}|BlockingRuntime::rt|DiscretBlocking::subscribe_for_events)$",
     r"^(unwrap|expect|assert!)$", r".*", "T", "start-up / local configuration (key derivation, sockets, certificates, runtime): not driven by peer or API request input"),
    (r"DiscretEndpoint::(initiate_connection|initiate_beacon_connection::\{closure#0\})$", r"^unwrap$", r"Endpoint::local_addr", "T",
     "only compiled with the `log` feature: local address of the endpoint the connection is being opened from (fails only if the socket was closed)"),
    # ---- fixed-size arithmetic ------------------------------------------------------------------------------
    (r"security::random_domain_name$", r".*", r".*", "I", "u32 -> usize conversions and remainders/indices by the lengths of non-empty constant tables"),
    (r"security::(MeetingSecret::(token|derive_token)|derive_uid|new_uid)$", r"^copy_from_slice$", r".*", "I", "source and destination slices have the same constant length (prefix of a 32 byte digest / 6 byte time)"),
    (r"MeetingSecret::decode_token$", r"^(copy_from_slice|index)$", r".*", "I", "r.len() >= MEETING_TOKEN_SIZE tested just above"),
    (r"security::import_verifying_key$", r"^unwrap$", r"try_into", "I", "slice 1..33 of a 33 byte key (length tested above) converts to [u8; 32]"),
    (r"security::import_verifying_key$", r"^assert:BoundsCheck$", r".*", "F",
     "FINDING empty-verifying-key: veriying_key[0] is read before the length test: a row or identity answer with an empty key panics the verification thread"),
    (r"verify$", r"^unwrap$", r"try_into\(&\*‹\[u8\]›\)", "I", "signature.len() == 64 tested just above"),
    (r"PeerManager::circuit_id$", r"^assert:BoundsCheck$", r".*", "I", "v is built from exactly two keys"),
    (r"(PeerManager::invite_accepted::\{closure#0\}|remove_tokens::\{closure#0\})$", r"^remove$", r".*", "I", "index returned by position() on the same vector just above"),
    # ---- network frames -------------------------------------------------------------------------------------
    (r"(endpoint|beacon)::.*", r"^unwrap$", r"try_into\((Result::unwrap\(‹[^›]*›\)|‹u32›|‹usize›|Vec::len)", "I", "u32 <-> usize conversion on 64 bit targets / small local values"),
    (r"(endpoint|beacon)::.*", r"^(index|index_mut)$", r"‹Vec<u8>›", "I", "slice 0..len of a buffer whose length was raised to len just above (R3 decides that len is bounded)"),
    (r"endpoint::.*start_accepted::\{closure#0\}$", r"^unwrap$", r"^‹Option<RecvStream>›$", "I", "each receiver is set in the same branch as its sender; the three senders are tested for is_none() above"),
    (r"MeetingPoint::add_tokens::\{closure#0\}$", r"^unwrap$", r"(header|serialize_into)", "T", "beacon server: the header is stored before add_tokens is called for a connection; serialisation into a Vec does not fail"),
    # ---- dates ----------------------------------------------------------------------------------------------
    (r"date_utils::(date|date_next_day)$", r"^(unwrap|add)$", r".*", "F",
     "FINDING unrepresentable-date: from_timestamp_millis / + 1 day panic on dates out of chrono's range; the date is named by a peer in RoomDailyNodes / deletion-log requests (reader thread dies) and carried by row mdates (writer thread dies in set_need_update)"),
]
