"""C08 — a peer is served data only for rooms it is a member of."""
import re
import mir
import sql
from mir import term_str, strip, callee_name, strip_refs

SERVE = "InboundQueryService::process_inbound::{closure#0}"
DB = "database::graph_database::GraphDatabaseService::"
# calls on peer.db that are not room scoped, with the condition under which they are legitimate
UNSCOPED = {
    "sign": "ProveIdentity",            # raw signing: judged by C06-R5
    "get_peer_node": "ProveIdentity",   # the instance's own peer row, keyed by its own key
    "get_rooms_for_peer": "RoomList",   # keyed by the authenticated key, see R1c
}
# row-level lookups behind the serving accessors: (accessor, row function, how the room constrains it)
ROW_LOOKUPS = [
    ("get_room_definition", "RoomDefinitionLog::get", "sql", r"room_id\s*=\s*\?"),
    ("get_room_log", "DailyLog::get_room_log", "sql", r"room_id\s*=\s*\?"),
    ("get_room_log_at", "DailyLog::get_room_log_at", "sql", r"room_id\s*=\s*\?"),
    ("get_room_daily_nodes", "Node::get_daily_nodes_for_room", "sql", r"room_id\s*=\s*\?"),
    ("get_nodes", "node::Node::filtered_by_room", "code", None),
    ("get_edges", "edge::Edge::filtered_by_room", "sql", r"_node\.room_id\s*=\s*\?"),
    ("get_room_edge_deletion_log", "EdgeDeletionEntry::get_entries", "sql", r"room_id\s*=\s*\?"),
    ("get_room_node_deletion_log", "NodeDeletionEntry::get_entries", "sql", r"room_id\s*=\s*\?"),
]


def where_disjuncts(text, at):
    """the top-level OR branches of the WHERE clause that contains offset `at` (parentheses respected; the clause ends at
    GROUP BY / ORDER BY / LIMIT / UNION or at the closing parenthesis of its sub-select)"""
    # start: the last WHERE before `at` at the same nesting depth
    depth = 0
    start = None
    i = at
    while i >= 0:
        c = text[i]
        if c == ")":
            depth += 1
        elif c == "(":
            if depth == 0:
                break
            depth -= 1
        elif depth == 0 and re.match(r"(?i)\bWHERE\b", text[i:i + 6]) and (i == 0 or not text[i - 1].isalnum()):
            start = i + 5
            break
        i -= 1
    if start is None:
        return [text]
    depth = 0
    j = start
    end = len(text)
    while j < len(text):
        c = text[j]
        if c == "(":
            depth += 1
        elif c == ")":
            if depth == 0:
                end = j
                break
            depth -= 1
        elif depth == 0 and re.match(r"(?i)\b(GROUP\s+BY|ORDER\s+BY|LIMIT|UNION)\b", text[j:j + 10]) and not text[j - 1].isalnum():
            end = j
            break
        j += 1
    clause = text[start:end]
    out = []
    depth = 0
    cur = ""
    k = 0
    while k < len(clause):
        c = clause[k]
        if c == "(":
            depth += 1
        elif c == ")":
            depth -= 1
        if depth == 0 and re.match(r"(?i)\bOR\b", clause[k:k + 3]) and (k == 0 or not (clause[k - 1].isalnum() or clause[k - 1] == "_")) and not (clause[k + 2:k + 3].isalnum() or clause[k + 2:k + 3] == "_"):
            out.append(cur)
            cur = ""
            k += 2
            continue
        cur += c
        k += 1
    out.append(cur)
    return out


def contains_guard(body, guards):
    """the room term X of a dominating true edge of peer.allowed_room.contains(&X), else None"""
    for s, vals, term in guards:
        atom, truth = mir.cond_atoms(term, vals)
        if atom[0] == "call" and atom[1].endswith("HashSet::contains") and truth is True:
            if mir.mentions(atom[2][0], "allowed_room"):
                return strip(atom[2][1])
    return None


def variant_of(guards):
    for s, vals, term in guards:
        dv = mir.discr_variants(term, vals)
        if dv and dv[0][0] == "field" and dv[0][2] == "query" and len(dv[1]) == 1:
            return dv[1][0]
    return None


def has_guard(guards, callee_re, truth, mention=None):
    """mention: a field/variable name, or a predicate over a term (structural identification)"""
    for s, vals, term in guards:
        atom, tr = mir.cond_atoms(term, vals)
        if atom[0] == "call" and re.search(callee_re, atom[1]) and tr is truth:
            if mention is None or any((mention(a) if callable(mention) else mir.mentions(a, mention)) for a in atom[2]):
                return True
    return False


def of_type(body, ty_re):
    """predicate: the term mentions a variable / parameter whose type matches (captured variables through their owner)"""
    def pred(t):
        for x in mir.subterms(t):
            if x[0] in ("var", "param") and len(x) > 2 and re.search(ty_re, mir.short_type(body.locals[x[2]])):
                return True
            if x[0] == "upvar" and re.search(ty_re, mir.short_type(body.upvar_type(x[1]))):
                return True
        return False
    return pred


def run(P, C, tier):
    C.explanation = (
        "Static decision of the structural part of C08: in the MIR of the request dispatcher every database read made "
        "for a peer is control-dependent on the true edge of the membership test for the very room it names, every "
        "request kind has its own arm, row-level lookups constrain the room in the statement text with the room "
        "parameter bound at the matching position, and the set of granted rooms is extended only at two audited sites. "
        "Not decided: that the membership function computes the documented history function; timing of revocation.")
    C.rule("R1", "every peer.db.* call in process_inbound lies under allowed_room.contains(&K)==true with K its room argument; "
                 "unscoped calls only in their allow-listed arm under the authenticated-key tests; every Query variant has an arm")
    C.rule("R2", "serving accessors of GraphDatabaseService are called only from the guarded dispatcher or the audited local callers")
    C.rule("R3", "row-level lookups behind the accessors constrain room_id with the bound room parameter")
    C.rule("R4", "allowed_room is extended only from rooms_for_peer(authenticated key, now) and from a membership-tested definition change; revocation exists")
    try:
        b = P.body(SERVE)
    except mir.MissingAnchor as e:
        C.anchor_missing("R1", "process_inbound", e)
        return
    C.saw(b)
    # ---- R1a: match coverage of Query
    q = P.adts.get("synchronisation::Query")
    variants = [v["name"] for v in q["variants"]] if q else []
    arms = set()
    for bi in b.live_blocks():
        t = b.blocks[bi]["t"]
        if t["k"] == "switch":
            term = b.switch_term(bi)
            if term[0] == "discr" and term[2] == "synchronisation::Query":
                table = dict(term[3])
                other = t["otherwise"]
                for v, tg in t["targets"]:
                    if tg != other:
                        arms.add(table.get(v))
    for v in variants:
        C.ob("R1", "arm:" + v, v in arms, b.loc(), "Query::%s has its own arm in the dispatcher" % v, nontrivial=False)
    C.floor("R1", "Query variants", len(variants), 13)
    room_variants = set()
    if q:
        for v in q["variants"]:
            if v["fields"] and v["fields"][0]["ty"].startswith("[u8;"):
                room_variants.add(v["name"])
    # ---- R1b: database calls
    n_scoped = 0
    for bi, t in b.live_calls():
        name = callee_name(t)
        if not name.startswith(DB):
            continue
        meth = name[len(DB):]
        g = b.guards(bi)
        var = variant_of(g)
        args = b.call_args(bi)
        site = b.loc(bi)
        key = "%s:%s" % (var, meth)
        if meth in UNSCOPED:
            ok = var == UNSCOPED[meth]
            detail = "unscoped accessor %s allowed in arm %s only (found in %s)" % (meth, UNSCOPED[meth], var)
            if meth == "get_rooms_for_peer":
                # the authenticated key: the guard obtained by locking the connection's key cell (Arc<Mutex<Vec<u8>>>)
                KEY = of_type(b, r"^MutexGuard<'?\w*,? ?Vec<u8>>$")
                READY = of_type(b, r"Arc<Atomic(Bool|<bool>)>$")
                k_ok = has_guard(g, r"Vec::is_empty$", False, KEY) and has_guard(g, r"Atomic.*::load$|AtomicBool::load$", True, READY)
                a_ok = KEY(args[1])
                kvars = [leaf for l, n, lty, leaf in b.named_locals() if re.search(r"^MutexGuard<'?\w*,? ?Vec<u8>>$", mir.short_type(lty))]
                kdefs = [b.local_term(kv[2], expand_vars=True) for kv in kvars]
                src_ok = bool(kdefs) and all(mir.has_call(d, r"Mutex.*::lock$") is not None and of_type(b, r"Arc<Mutex<Vec<u8>>>$")(d) for d in kdefs)
                ok = ok and k_ok and a_ok and src_ok
                detail += "; guards !key.is_empty && conn_ready: %s; argument is the authenticated key: %s" % (k_ok, a_ok and src_ok)
            if meth == "get_peer_node":
                own = b.cpath(args[1]) == "‹RemotePeerHandle›.verifying_key"
                ok = ok and own
                detail += "; argument is the instance's own key: %s" % own
            C.ob("R1", key, ok, site, detail)
            continue
        X = contains_guard(b, g)
        room_arg = strip(args[1]) if len(args) > 1 else None
        same = X is not None and any(strip(a) == X for a in args[1:])
        n_scoped += 1
        C.ob("R1", key, same and var in room_variants, site,
             "peer.db.%s(%s) guarded by allowed_room.contains(&%s)==true: %s" % (
                 meth, ", ".join(term_str(a) for a in args[1:]), term_str(X) if X else "<none>", same))
    C.floor("R1", "room-scoped database calls", n_scoped, 10)
    # ---- R1c: successful answers are sent only under the arm's guard
    n_send = 0
    for bi, t in b.calls_to(r"RemotePeerHandle::send$"):
        args = b.call_args(bi)
        if len(args) < 5 or not (args[2][0] == "const" and args[2][1] is True):
            continue
        g = b.guards(bi)
        var = variant_of(g)
        n_send += 1
        if var in room_variants:
            ok = contains_guard(b, g) is not None
            why = "membership guard"
        elif var == "RoomList":
            ok = has_guard(g, r"Vec::is_empty$", False, of_type(b, r"^MutexGuard<'?\w*,? ?Vec<u8>>$")) and has_guard(g, r"::load$", True, of_type(b, r"Arc<Atomic(Bool|<bool>)>$"))
            why = "authenticated-key guard"
        elif var == "HardwareFingerprint":
            ok = has_guard(g, r"PartialEq.*::eq$|::eq$", True, of_type(b, r"^MutexGuard<'?\w*,? ?Vec<u8>>$")) and has_guard(g, r"Vec::is_empty$", False, of_type(b, r"^MutexGuard<'?\w*,? ?Vec<u8>>$"))
            why = "same-user guard"
        elif var == "ProveIdentity":
            ok = True
            why = "identity answer (no room data)"
        else:
            ok = False
            why = "unclassified arm"
        C.ob("R1", "send:%s:%d" % (var, len([o for o in C.obligations if o["key"].startswith("C08/R1/send:%s:" % var)])), ok, b.loc(bi),
             "successful answer in arm %s requires %s" % (var, why))
    C.floor("R1", "successful answers", n_send, 22)

    # ---- R2: who may call the serving accessors
    allowed_callers = {
        "get_room_definition": {"LocalPeerService::synchronise_room"},   # local side reads its own definition to compare
        "get_room_log": {"LocalPeerService::synchronise_history"},       # local side reads its own log to compare
        "peers_for_room": {"LocalPeerService::synchronise_room"},        # local side lists the peers it must know
    }
    accessors = [r[0] for r in ROW_LOOKUPS] + ["get_room_node", "peers_for_room", "get_rooms_for_peer"]
    for a in accessors:
        sites = P.call_sites(re.escape(DB + a) + "$")
        for cb, bi, t in sites:
            owner = P.owner_fn(cb.id)
            short = mir.short(owner)
            ok = owner.endswith("InboundQueryService::process_inbound") or short in allowed_callers.get(a, ())
            C.ob("R2", "%s<-%s" % (a, short), ok, cb.loc(bi), "caller of serving accessor %s" % a, nontrivial=False)
    # ---- R3: row-level lookups
    for acc, rowfn, how, pat in ROW_LOOKUPS:
        try:
            ab = P.body("GraphDatabaseService::" + acc)
            rb = P.body(rowfn)
        except mir.MissingAnchor as e:
            C.anchor_missing("R3", acc, e)
            continue
        C.saw(ab)
        C.saw(rb)
        # the accessor forwards its room_id parameter
        fwd = False
        for fid in P.family(ab.id):
            fb = P.bodies[fid]
            for bi, t in fb.calls_to(re.escape(rb.id) + "$"):
                rooms_ = set(ab.find_locals(ty=r"^\[u8; 16\]$", arg=True)) | set(ab.find_locals(ty=r"^\[u8; 16\]$", param=True))
                if any(mir.field_path(a).split(".")[-1] in rooms_ or (mir.strip(a)[0] == "upvar" and mir.strip(a)[1] in rooms_) for a in fb.call_args(bi)):
                    fwd = True
        C.ob("R3", "forward:%s" % acc, fwd, ab.loc(), "%s passes its room_id to %s" % (acc, rowfn))
        if how == "sql":
            st = sql.statements(rb)
            ok = bool(st)
            detail = "no statement"
            details = []
            # EVERY statement of the row function is constrained to the room, with the room parameter bound at that placeholder
            for bi, cal, text, holes, term in st:
                if text is None:
                    ok = False
                    details.append("statement text not constant")
                    continue
                m = re.search(pat + r"(\d*)", text)
                if not m:
                    ok = False
                    details.append("statement lacks the room constraint /%s/" % pat)
                    continue
                # the constraint must hold for EVERY returned row: it is a conjunct of every top-level OR branch of its WHERE clause
                branches = where_disjuncts(text, m.start())
                loose = [br for br in branches if not re.search(pat, br)]
                if loose:
                    ok = False
                    details.append("the room constraint does not cover the OR branch `%s` (AND binds tighter than OR): rows of any room are returned" % sql.norm(loose[0])[:70])
                    continue
                pos = int(m.group(m.lastindex)) - 1 if m.group(m.lastindex) else text[:m.end()].count("?") - 1
                # the parameter bound at that position, in the execution(s) of THIS statement
                bound = None
                n_exec = 0
                for qb, qt in rb.calls_to(r"Statement.*::(query|query_map|query_row|execute)$"):
                    pc = mir.has_call(rb.call_args(qb, expand_vars=True)[0], r"::prepare(_cached)?$")
                    if pc is None or pc[3] != bi:
                        continue
                    n_exec += 1
                    qa = rb.call_args(qb)
                    params = qa[1]
                    while params[0] in ("ref", "deref"):
                        params = params[1]
                    b1 = params[4][pos] if params[0] == "aggr" and pos < len(params[4]) else None
                    b1ok = b1 is not None and mir.strip(b1)[0] == "param" and re.search(r"^\[u8; 16\]$", mir.short_type(rb.root_type(mir.strip(b1)))) is not None
                    if not b1ok:
                        ok = False
                    bound = b1
                if n_exec == 0:
                    ok = False
                details.append("placeholder #%d bound to %s in %d execution(s)" % (pos + 1, term_str(bound) if bound else "?", n_exec))
            detail = "; ".join(details) or detail
            C.ob("R3", "constraint:%s" % rowfn, ok, rb.loc(), detail)
        else:
            # code filter: every push of a row into the result is dominated by rid.eq(room_id)==true and Some(room)
            pushes = [(bi, t) for bi, t in rb.calls_to(r"Vec::push$") if re.search(r"node::Node$", rb.root_type(mir.strip(rb.call_args(bi)[1])))]
            ROOMP = of_type(rb, r"^\[u8; 16\]$")          # the room parameter (&Uid)
            DBROOM = of_type(rb, r"^Option<\[u8; 16\]>$")   # the row's own room as read from storage
            ok = bool(pushes)
            for bi, t in pushes:
                # implied guards: `let in_room = matches!(&db_room_id, Some(rid) if rid.eq(room_id)); if !in_room { continue }`
                g = rb.implied_guards(bi, expand_vars=False)
                eq = False
                for s_, vals, term in g:
                    atom, truth = mir.cond_atoms(term, vals)
                    if atom[0] == "phi" and truth is True:
                        # the verdict of a helper analysed inlined (`match o { Some(r) => r.eq(x), None => false }`): true only through its non-false arm
                        alts_ = [a_ for a_ in atom[1] if not (mir.strip_refs(a_)[0] == "const" and mir.strip_refs(a_)[1] is False)]
                        if len(alts_) == 1:
                            atom = mir.strip_refs(alts_[0])
                    if atom[0] == "call" and atom[1].endswith("::eq") and truth is True and len(atom[2]) == 2:
                        x, y = atom[2]

                        def from_row(z, depth=0):
                            z = mir.strip(z)
                            if DBROOM(z):
                                return True
                            if z[0] == "var" and depth < 4:
                                # pattern bindings may be chained (`matches!(&x, Some(rid) if ..)` binds a reference to the binding)
                                return any(DBROOM(d) or from_row(d, depth + 1) for d in rb.var_defs(z))
                            return False
                        ox, oy = rb.origin(mir.strip(x)), rb.origin(mir.strip(y))   # the parameter binding of a helper analysed inlined
                        if (from_row(x) and oy[0] == "param" and ROOMP(oy)) or (from_row(y) and ox[0] == "param" and ROOMP(ox)):
                            eq = True
                some = any((mir.discr_variants(term, vals) or (None, []))[1] == ["Some"] and DBROOM(term) for s_, vals, term in g)
                ok = ok and eq and some
            C.ob("R3", "constraint:%s" % rowfn, ok, rb.loc(), "rows pushed to the answer only under db_room_id==Some(rid) && rid.eq(room_id): %d push site(s)" % len(pushes))
    # ---- R4: who may extend the allowed set
    inserts = []
    for body in P.bodies.values():
        for bi, t in body.calls_to(r"HashSet::insert$|HashSet.*::extend$"):
            a = body.call_args(bi)
            if mir.mentions(a[0], "allowed_room"):
                inserts.append((body, bi, a))
    for body, bi, a in inserts:
        owner = mir.short(P.owner_fn(body.id))
        if body.id == b.id:
            g = b.guards(bi)
            var = variant_of(g)
            srct = b.operand_term(b.blocks[bi]["t"]["args"][1], expand_vars=True)
            src = term_str(srct)
            terms, bars = mir.flow_sources(b, srct, r"GraphDatabaseService::get_rooms_for_peer$")
            stray = [x for x in terms if not x.endswith("Receiver::recv")]
            ok = var == "RoomList" and bool(bars) and not stray
            src = "%s via %s" % (sorted(bars), sorted(terms))
            C.ob("R4", "insert:" + owner, ok, body.loc(bi), "allowed_room.insert in arm %s from %s" % (var, src[:120]))
        elif body.id.endswith("RemotePeerHandle::add_allowed_room"):
            C.ob("R4", "insert:" + owner, True, body.loc(bi), "setter", nontrivial=False)
        else:
            C.ob("R4", "insert:" + owner, False, body.loc(bi), "unaudited site extending allowed_room")
    C.floor("R4", "allowed_room.insert sites", len(inserts), 2)
    # rooms_for_peer uses dated membership with the current date
    try:
        rfp = P.body("RoomAuthorisations::rooms_for_peer")
        C.saw(rfp)
        dated = [bi for bi, t in rfp.calls_to(r"Room::is_user_valid_at$")]
        ins = rfp.calls_to(r"HashSet::insert$")
        ok = bool(dated) and bool(ins)
        for bi, t in ins:
            g = rfp.guards(bi)
            ok = ok and has_guard(g, r"Room::is_user_valid_at$", True, lambda a: mir.strip(a)[0] == "param" and rfp.root_type(mir.strip(a)) == "i64")
        if not ins:
            # iterator form: `self.rooms.iter().filter(|(_, room)| room.is_user_valid_at(key, date)).map(|(id, _)| *id).collect()`
            ret = rfp.place_term([0], 0, True)
            f_ = mir.has_call(ret, r"Iterator::filter$")
            if mir.has_call(ret, r"Iterator::collect$") is not None and f_ is not None and len(f_[2]) == 2 and "rooms" in term_str(f_[2][0]):
                clo = strip_refs(f_[2][1])
                cb_ = P.bodies.get(clo[2]) if clo[0] == "aggr" and clo[1] == "closure" else None
                if cb_ is not None:
                    rv_ = strip_refs(cb_.place_term([0], 0, True))
                    if rv_[0] == "call" and rv_[1].endswith("Room::is_user_valid_at") and any(mir.strip(x)[0] == "upvar" and cb_.upvar_type(mir.strip(x)[1]) == "i64" for x in rv_[2]):
                        ok = True
        C.ob("R4", "rooms_for_peer:dated-membership", ok, rfp.loc(), "a room enters the result only under is_user_valid_at(key, date)==true")
        gsrv = P.body("GraphDatabaseService::get_rooms_for_peer")
        now = False
        for fid in P.family(gsrv.id):
            fb = P.bodies[fid]
            for bi, t in fb.live_calls():
                for s in mir.subterms(fb.def_term(bi, None, t, 0)):
                    if s[0] == "aggr" and s[3] == "RoomsForPeer":
                        now = now or mir.has_call(s[4][s[5].index("1")] if "1" in s[5] else s[4][1], r"date_utils::now$") is not None
        C.ob("R4", "rooms_for_peer:current-date", now, gsrv.loc(), "RoomsForPeer is evaluated at date_utils::now()")
    except mir.MissingAnchor as e:
        C.anchor_missing("R4", "rooms_for_peer", e)
    # the second grant path: setter <- channel <- InboundQueryService::add_allowed_room <- process_local_event
    sites = P.call_sites(r"InboundQueryService::add_allowed_room$")
    for cb, bi, t in sites:
        owner = mir.short(P.owner_fn(cb.id))
        g = cb.guards(bi)
        dated = has_guard(g, r"Room::is_user_valid_at$", True)
        undated = has_guard(g, r"Room::has_user$", True)
        C.ob("R4", "grant-predicate:" + owner, dated, cb.loc(bi),
             "a definition change grants the room only to a member valid at the current date "
             "(found: %s)" % ("has_user, which ignores `enabled` and dates" if undated else "no membership test" if not dated else "dated"))
    C.floor("R4", "add_allowed_room callers", len(sites), 1)
    C.rule("R5", "membership at a date is decided by the sibling history lookups (latest entry at or before the date)")
    from rules import rights as _rights
    _rights.history_lookup_rule(P, C, "R5")
    removes = []
    for body in P.bodies.values():
        for bi, t in body.calls_to(r"HashSet::(remove|retain|clear|take)$"):
            if mir.mentions(body.call_args(bi)[0], "allowed_room"):
                removes.append(body.loc(bi))
    C.ob("R4", "revocation", bool(removes), b.loc(),
         "some site removes a room from allowed_room when a definition change disables the peer (sites: %s)" % (removes or "none"))
