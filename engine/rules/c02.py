"""C02 — rows received from peers are stored only if their author had the right."""
import re
import mir
import sql
from mir import term_str, strip_refs, callee_name, field_path
from rules import rights
from rules.c01 import author_eq_for, right_kind_rule

INGEST = {
    "add_nodes": r"verify_nodes$", "add_edges": r"verify_edges$", "delete_nodes": r"verify_node_log$",
    "delete_edges": r"verify_edge_log$", "add_room_node": r"verify_room_node$", "add_peer_nodes": r"verify_nodes$",
}
NETWORK_SOURCES = re.compile(r"(Receiver.*::recv$|query_multiple$|LocalPeerService::query$|QueryService::|RemoteQuery)")
BARRIER = r"SignatureVerificationService::verify_|GraphDatabaseService::(filter_existing_node|get_|peers_for)"
CARRIERS = {"database::node::Node": "Node::verify", "database::edge::Edge": "Edge::verify"}


def expected_paths(P, adt_path, prefix, out, depth=0):
    a = P.adts.get(adt_path)
    if a is None or depth > 4:
        return
    for f in a["variants"][0]["fields"]:
        ty = f["ty"]
        m = re.search(r"(database::[a-z_]+::[A-Za-z]+)", ty)
        if not m:
            continue
        inner = m.group(1)
        p = prefix + "." + f["name"] + (".[]" if ty.startswith("std::vec::Vec<") else "")
        if inner in CARRIERS:
            out.append((p, CARRIERS[inner]))
        elif inner.startswith("database::room_node::"):
            expected_paths(P, inner, p, out, depth + 1)


LIST_MUT = re.compile(r"Vec::(push|insert|extend|append|extend_from_slice|swap_remove|remove|retain|retain_mut|truncate|drain|pop|clear|dedup\w*|sort\w*|resize\w*|splice|split_off)$")


def filtered_list(P, b, lst, gate):
    """the list handed to the writer holds only accepted rows.  Two idioms are recognised (anything else fails closed):
    (a) a fresh Vec whose only mutations are pushes control-dependent on the true edge of the gate;
    (b) the incoming Vec filtered in place by retain(|row| gate(row)) (the closure returns the gate's result), nothing else."""
    if lst[0] != "var":
        return False, "not a local list: %s" % term_str(lst)[:60]
    defs = b.var_defs(lst)
    fresh = bool(defs) and all(mir.strip(d)[0] == "call" and re.search(r"Vec::(new|with_capacity)$", mir.strip(d)[1]) for d in defs)
    muts = []
    for bi, t in b.live_calls():
        if not LIST_MUT.search(callee_name(t)):
            continue
        a0 = b.call_args(bi)[0]
        base = a0
        while base[0] in ("ref", "deref"):
            base = base[1]
        if base[:3] == lst[:3]:
            muts.append((bi, callee_name(t).split("::")[-1]))
    if fresh:
        if not muts or any(m != "push" for _, m in muts):
            return False, "fresh list mutated by %s" % sorted({m for _, m in muts})
        for pb, _ in muts:
            g = b.guards(pb, expand_vars=True)
            if not any(mir.has_call(term, gate) and mir.cond_atoms(term, vals)[1] is True for s_, vals, term in g):
                return False, "push at %s is not control-dependent on the accepting edge" % b.loc(pb)
        return True, "fresh list, %d push site(s) on the accepting edge" % len(muts)
    rets = [(bi, m) for bi, m in muts if m in ("retain", "retain_mut")]
    if len(rets) == 1 and len(muts) == 1:
        clos = mir.strip(b.call_args(rets[0][0])[1])
        cb = P.bodies.get(clos[2]) if clos[0] == "aggr" and clos[1] == "closure" else None
        if cb is not None:
            okc = True
            n = 0
            for rb in cb.live_blocks():
                for si, st in enumerate(cb.blocks[rb]["s"]):
                    if st["lhs"] == [0]:
                        n += 1
                        v = cb.def_term(rb, si, st["rv"], 0, expand_vars=True)
                        if mir.has_call(v, gate) is None or mir.strip(v)[0] != "call":
                            okc = False
                tt = cb.blocks[rb]["t"]
                if tt["k"] == "call" and tt["dest"] == [0]:
                    n += 1
                    if not re.search(gate, callee_name(tt)):
                        okc = False
            if okc and n:
                return True, "incoming list filtered in place by retain(gate)"
        return False, "retain closure does not return the gate's verdict"
    return False, "list is neither a fresh Vec filled on the accepting edge nor retain(gate): definitions %s, mutations %s" % ([term_str(d)[:40] for d in defs], sorted({m for _, m in muts}))


def _true_implies(cb):
    """which of the gates {get_entity, json} have succeeded whenever the predicate closure `cb` returns true: every definition of
    its return value is the constant false, or is made under (or is itself) the success of the gate"""
    sat = None
    for (bi, si, rv, lhs) in cb.defs().get(0, ()):
        if bi not in cb.live_blocks() or len(lhs) != 1:
            continue
        dt = mir.strip_refs(cb.def_term(bi, si, rv, 0, True))
        for alt in (dt[1] if dt[0] == "phi" else [dt]):
            alt = mir.strip_refs(alt)
            if alt[0] == "const" and alt[1] is False:
                continue
            here = set()
            for s_, vals, term in cb.implied_guards(bi, expand_vars=True):
                dv = mir.guard_variants(cb, s_, vals, term)
                if dv and dv[1] == ["Ok"] and mir.has_call(dv[0], r"DataModel::get_entity$"):
                    here.add("get_entity")
                if dv and dv[1] == ["Ok"] and mir.has_call(dv[0], r"validate_json_for_entity$"):
                    here.add("json")
            if alt[0] == "call" and alt[1].endswith("::is_ok") and alt[2] and mir.has_call(alt[2][0], r"validate_json_for_entity$"):
                here.add("json")
            sat = here if sat is None else (sat & here)
    return sat or set()


def run(P, C, tier):
    C.explanation = (
        "Static decision of the structural part of C02: value-flow (taint) from the network receive calls to the six "
        "ingestion entry points must cross the signature verification of the matching kind; the verification covers every "
        "row-carrying field of a room definition (derived from the struct types) and propagates failure; a received row "
        "reaches the write list only on the accepting edges of the room, model and rights tests and otherwise reaches only "
        "the rejected list; rights are evaluated for the row's author at the row's date in the entering and leaving room. "
        "Not decided: Ed25519, the content of _node after ingestion.")
    C.rule("R1", "the data argument of every GraphDatabaseService::{add_nodes,add_edges,delete_nodes,delete_edges,add_room_node,add_peer_nodes} call is reached from a network receive only through verify_<kind>")
    C.rule("R2", "room_check verifies every Node/Edge carrying field of RoomNode/AuthorisationNode; each *_check propagates verify errors; Node/Edge/deletion verify reach the key's verify with the digest and propagate")
    C.rule("R3", "GraphDatabase::add_nodes: a row reaches valid_nodes only under room_id==node.room_id, known entity, model-valid JSON; every loop path pushes to exactly one list")
    C.rule("R4", "validate_node evaluates can(author of the row, entity, row date, right by author comparison) in the entering room and, when the room changes, in the leaving room")
    C.rule("R5", "references: the source row's room is bound to the synchronised room and replacing another author's reference needs the all-rows right")
    C.rule("R6", "in the actor arms a row goes to the write list only on the accepting edge; the write message carries only the filtered list")
    C.rule("R7", "the previous version used for rights and for the storage slot is looked up by (id, entity)")
    C.rule("R8", "a deletion record is applied only when it belongs to the room being synchronised")
    # ---------------- R1
    sites = P.call_sites(r"GraphDatabaseService::(add_nodes|add_edges|delete_nodes|delete_edges|add_room_node|add_peer_nodes)$")
    n1 = 0
    per = {}
    for b, bi, t in sites:
        owner = mir.short(P.owner_fn(b.id))
        if owner.startswith("GraphDatabaseService::") or owner.startswith("Discret"):
            continue
        meth = callee_name(t).split("::")[-1]
        C.saw(b)
        args = b.call_args(bi)
        data = args[-1]
        terms, bars = mir.flow_sources(b, data, BARRIER)
        net = sorted(x for x in terms if NETWORK_SOURCES.search(x))
        params = sorted(x for x in terms if x.startswith("param:") or x.startswith("upvar:"))
        verified = any(re.search(INGEST[meth], x) for x in bars)
        n = per.get((owner, meth), 0)
        per[(owner, meth)] = n + 1
        key = "%s:%s#%d" % (owner, meth, n)
        n1 += 1
        if params and not verified:
            # the row arrives as a parameter: audited table of callers
            rows = {"param:" + n for n in b.find_locals(ty=r"node::Node$", arg=True)} | {"upvar:" + n for n in b.find_locals(ty=r"node::Node$", arg=True)}
            rows |= {"upvar:" + t[6:] for t in params if t.startswith("upvar:") and re.search(r"node::Node$", b.upvar_type(t[6:]))}
            ok = owner == "PeerManager::invite_accepted" and len(params) == 1 and params[0] in rows
            C.ob("R1", key, ok and not net, b.loc(bi), "row received as parameter %s: verified by the caller (Peer::validate dominates invite_accepted, decided by C19-R1)" % params)
        else:
            C.ob("R1", key, verified and not net, b.loc(bi), "flows from %s; unverified network sources: %s" % (sorted(mir.short(x) for x in bars), net or "none"))
    C.floor("R1", "ingestion call sites", n1, 9)
    # ---------------- R2
    try:
        rc = P.body("SignatureVerificationService::room_check")
        C.saw(rc)
        exp = []
        root = rc.the_local("the room definition under verification", ty=r"room_node::RoomNode$", param=True)
        expected_paths(P, "database::room_node::RoomNode", "node", exp)
        got = {}
        for bi, t in rc.calls_to(r"database::(node::Node|edge::Edge)::verify$"):
            fp = mir.full_path(rc, rc.call_args(bi)[0])
            if fp.split(".")[0] == root:
                fp = ".".join(["node"] + fp.split(".")[1:])    # keys name the parameter `node` whatever its spelling
            got[fp] = (bi, mir.short(callee_name(t)))
        for p, fn in exp:
            g = got.get(p)
            ok = g is not None and g[1] == fn
            if ok:
                re_ = mir.result_edges(rc, g[0])
                ok = re_ is not None and re_["via"] == "?"
            C.ob("R2", "room_check:" + p, ok, rc.loc(g[0]) if g else rc.loc(), "%s(%s)? is called for this field of the room definition" % (fn, p))
        C.floor("R2", "row-carrying fields of RoomNode", len(exp), 11)
    except mir.MissingAnchor as e:
        C.anchor_missing("R2", "room_check", e)
    for fn, callee in (("nodes_check", "Node::verify"), ("edges_check", "Edge::verify"), ("edge_log_check", "EdgeDeletionEntry::verify"), ("node_log_check", "NodeDeletionEntry::verify")):
        try:
            b = P.body("SignatureVerificationService::" + fn)
            C.saw(b)
            cs = b.calls_to(re.escape(callee) + "$")
            ok = len(cs) == 1
            if not cs:
                # iterator form: `rows.iter().try_for_each(|x| x.verify())?` -- the closure verifies its element and returns the result,
                # the driver's result is propagated with `?`
                for ti, tt in b.calls_to(r"Iterator::try_for_each$"):
                    a_ = b.call_args(ti, expand_vars=True)
                    clo = mir.strip_refs(a_[1]) if len(a_) > 1 else ("unknown",)
                    cb_ = P.bodies.get(clo[2]) if clo[0] == "aggr" and clo[1] == "closure" else None
                    re_t = mir.result_edges(b, ti)
                    if cb_ is None or re_t is None or re_t["via"] != "?":
                        continue
                    vc = cb_.calls_to(re.escape(callee) + "$")
                    rv_ = mir.strip_refs(cb_.place_term([0], 0, True))
                    over_param = mir.has_call(a_[0], r"::iter$|::iter_mut$|::into_iter$") is not None
                    if len(vc) == 1 and rv_[0] == "call" and rv_[3] == vc[0][0] and over_param:
                        C.ob("R2", "loop:" + fn, True, b.loc(ti), "every element is verified (try_for_each) and a failure is propagated with `?`")
                        ok = None
                if ok is None:
                    continue
            if ok:
                bi = cs[0][0]
                it = mir.full_path(b, b.call_args(bi)[0])
                re_ = mir.result_edges(b, bi)
                ok = it.endswith(".[]") and re_ is not None and re_["via"] == "?"
                # the Ok result is the same collection
            C.ob("R2", "loop:" + fn, ok, b.loc(), "every element is verified and a failure is propagated with `?`")
        except mir.MissingAnchor as e:
            C.anchor_missing("R2", fn, e)
    for fn in ("node::Node::verify", "edge::Edge::verify", "node::NodeDeletionEntry::verify", "edge::EdgeDeletionEntry::verify"):
        try:
            b = P.body(fn)
            C.saw(b)
            vs = b.calls_to(r"VerifyingKey::verify$|VerifyingKey>::verify$")
            ok = len(vs) == 1
            det = "calls the key's verify once: %s" % ok
            if ok:
                bi = vs[0][0]
                a = b.call_args(bi, expand_vars=True)
                h = mir.has_call(a[1], r"(::hash$|Hasher::finalize$)")
                sig = field_path(a[2]).split(".")[-1] in ("_signature", "signature")
                keyimp = mir.has_call(a[0], r"security::import_verifying_key$")
                kp = field_path(keyimp[2][0]).split(".")[-1] == "verifying_key" if keyimp else False
                re_ = mir.result_edges(b, bi)
                prop = re_ is not None and re_["via"] == "?"
                # the Ok return is reachable only through the verify call's success edge
                ra = mir.return_assignments(b)
                dom = all(b.dominates(bi, o) for o in ra["Ok"]) and bool(ra["Ok"])
                ok = bool(h) and sig and kp and prop and dom
                det = "verify(digest=%s, signature field=%s) under the row's own key=%s, error propagated=%s, dominates Ok=%s" % (bool(h), sig, kp, prop, dom)
            C.ob("R2", "verify:" + mir.short(b.id), ok, b.loc(), det)
        except mir.MissingAnchor as e:
            C.anchor_missing("R2", fn, e)
    # ---------------- R3 / R7
    try:
        an = P.body("GraphDatabase::add_nodes::{closure#0}")
        C.saw(an)
        # the accepting list holds rows (Vec<NodeToInsert>), the rejecting one identifiers (Vec<Uid>): identified by type
        pushes_valid = [bi for bi, t in an.calls_to(r"Vec::push$") if re.search(r"^Vec<NodeToInsert>$", mir.short_type(an.root_type(mir.strip(an.call_args(bi)[0]))))]
        pushes_invalid = [bi for bi, t in an.calls_to(r"Vec::push$") if re.search(r"^Vec<\[u8; 16\]>$", mir.short_type(an.root_type(mir.strip(an.call_args(bi)[0]))))]
        ROOM = an.find_locals(ty=r"^\[u8; 16\]$", arg=True)
        C.ob("R3", "valid-push-sites", len(pushes_valid) == 1, an.loc(), "one accepting site", nontrivial=False)
        need = {"room": False, "room-some": False, "name_for": False, "get_entity": False, "json": False, "node-some": False}
        entity_gate = False
        for pb in pushes_valid:
            for s, vals, term in an.implied_guards(pb, expand_vars=True):
                atom, truth = mir.cond_atoms(term, vals)
                dv = mir.discr_variants(term, vals)
                if atom[0] == "call" and atom[1].endswith("::eq") and truth is True:
                    ps = [field_path(an.origin(x)) for x in atom[2]]
                    if len(ROOM) == 1 and any(p == ROOM[0] for p in ps) and any(p.endswith(".room_id") for p in ps if p != ROOM[0]):
                        need["room"] = True
                    if any("old_entity" in p for p in ps) and any(p.endswith("_entity") for p in ps):
                        entity_gate = True
                if dv:
                    base, names = dv
                    if names == ["Some"] and field_path(base).endswith("room_id"):
                        need["room-some"] = True
                    if names == ["Some"] and mir.has_call(base, r"DataModel::name_for$"):
                        need["name_for"] = True
                    if names == ["Ok"] and mir.has_call(base, r"DataModel::get_entity$"):
                        need["get_entity"] = True
                    if names == ["Ok"] and mir.has_call(base, r"validate_json_for_entity$"):
                        need["json"] = True
                    flt = mir.has_call(base, r"Option<.*>::filter$|Option::filter$")
                    if names == ["Some"] and flt is not None and len(flt[2]) > 1:
                        # `name_for(..).filter(|name| <both tests succeed>)`: Some only when the predicate answered true
                        clo = mir.strip_refs(flt[2][1])
                        cb_ = P.bodies.get(clo[2]) if clo[0] == "aggr" and clo[1] == "closure" else None
                        if cb_ is not None:
                            for k_ in _true_implies(cb_):
                                need[k_] = True
                    if names == ["Some"] and mir.has_call(base, r"Option.*::as_ref$") and an.cpath(base).endswith("‹NodeToInsert›.node"):
                        need["node-some"] = True
                    if names == ["Some"] and field_path(base).endswith("old_entity"):
                        pass
        for k, v in need.items():
            C.ob("R3", "gate:" + k, v, an.loc(pushes_valid[0]) if pushes_valid else an.loc(), "valid_nodes.push is control-dependent on this test")
        # each iteration ends in exactly one list
        hdrs = [bi for bi, t in an.live_calls() if "d:ForLoop" in t["at"][1] and callee_name(t).endswith("::next")]
        ok = False
        if len(hdrs) == 1:
            h = hdrs[0]
            re_ = mir.result_edges(an, h)
            if re_ and "ok" in re_:
                allp = set(pushes_valid) | set(pushes_invalid)
                # from the loop body entry every path back to the header passes a push
                body_entry = re_["ok"]
                r = an.reachable(body_entry, avoid_blocks=allp)
                ok = h not in r
                # and no path passes two pushes
                twice = False
                for p in allp:
                    if (an.reach_after(p, avoid_blocks={h}) & allp):
                        twice = True
                ok = ok and not twice
        C.ob("R3", "exactly-one-list", ok, an.loc(), "every path through one loop iteration pushes the row to exactly one of valid_nodes / invalid_nodes (%d + %d sites)" % (len(pushes_valid), len(pushes_invalid)))
        # R7: (id, entity) keyed lookup.  `if let Some(old) = old_entity { if !old.eq(entity) { reject } }` does not
        # dominate the accepting push (the None path skips it), so it is decided as a cut: without the eq switch and
        # without the None edge of the old_entity test the accepting push must be unreachable, and the rejecting
        # edge of the eq must not reach it.
        if len(hdrs) == 1 and pushes_valid:
            h = hdrs[0]
            eq_sw = None
            none_edge = None
            for sb in sorted(an.live_blocks()):
                tt = an.blocks[sb]["t"]
                if tt["k"] != "switch":
                    continue
                term = an.switch_term(sb, expand_vars=True)
                if term[0] == "discr" and field_path(term[1]).endswith("old_entity"):
                    table = dict(term[3])
                    for v, tg in tt["targets"]:
                        if table.get(v) == "None":
                            none_edge = (sb, tg)
                    if none_edge is None:
                        none_edge = (sb, tt["otherwise"])
                atom, _ = mir.cond_atoms(term, [0])
                if atom[0] == "call" and atom[1].endswith("::eq") and len(atom[2]) == 2:
                    ps = [field_path(x) for x in atom[2]]
                    if any(p.endswith("old_entity") for p in ps) and any(p.endswith("node._entity") or p.endswith("._entity") for p in ps):
                        ft = None
                        for tg, vals in rights.switch_edges(an, sb):
                            if mir.cond_atoms(term, vals)[1] is False:
                                ft = tg
                        eq_sw = (sb, ft)
            if eq_sw and none_edge and eq_sw[1] is not None:
                rej = an.reachable(eq_sw[1], avoid_blocks={h})
                cut = an.reachable(re_["ok"], avoid_blocks={eq_sw[0]}, avoid_edges={none_edge})
                entity_gate = not (rej & set(pushes_valid)) and not (cut & set(pushes_valid))
        fe = P.body("node::Node::filter_existing")
        C.saw(fe)
        st = sql.statements(fe)
        sql_ent = any(text and re.search(r"_entity\s*=\s*\?|_entity\s+in", text, re.I) for _, _, text, _, _ in st)
        C.ob("R7", "previous-version-keyed-by-entity", sql_ent or entity_gate, fe.loc(),
             "the stored row taken as previous version has the incoming row's entity: statement constrains _entity=%s, or add_nodes rejects an entity mismatch=%s" % (sql_ent, entity_gate))
    except mir.MissingAnchor as e:
        C.anchor_missing("R3", "add_nodes", e)
    # ---------------- R4
    try:
        vn = P.body("RoomAuthorisations::validate_node")
        C.saw(vn)
        ss = rights.can_sites(P, vn)
        C.floor("R4", "can sites in validate_node", len(ss), 2)
        for i, s in enumerate(ss):
            label = "validate_node:can#%d" % i
            ok1, det = rights.check_refusal(vn, s["block"])
            C.ob("R4", label + ":checked", ok1, s["loc"], det)
            C.ob("R4", label + ":author", s["user"].endswith("node.verifying_key"), s["loc"], "decision for the row's own author: %s" % s["user"])
            C.ob("R4", label + ":date", s["date"].endswith("node.mdate"), s["loc"], "decision at the row's own date: %s" % s["date"])
            C.ob("R4", label + ":right", rights.canonical_kinds(vn, [s]) == rights.WANT_KINDS, s["loc"], "right chosen by the author comparison: %s" % sorted(rights.canonical_kinds(vn, [s])))
            if s["room_ineq"]:
                C.ob("R4", label + ":leaving-room", s["room_key"] is not None and "old" in s["room_key"], s["loc"], "leaving-room decision keyed by %s" % s["room_key"])
            else:
                C.ob("R4", label + ":entering-room", s["room_key"] is not None and s["room_key"].endswith("node.room_id"), s["loc"], "entering-room decision keyed by %s" % s["room_key"])
        C.ob("R4", "validate_node:both-rooms", any(s["room_ineq"] for s in ss) and any(not s["room_ineq"] for s in ss), vn.loc(), "both the leaving and the entering room are consulted")
        seen_cases = set()
        for s in ss:
            for r, eq, bi in rights.decision_cases(vn, s):
                k_ = (r, {True: "same", False: "different", None: "none"}[eq])
                if k_ in seen_cases:
                    continue
                seen_cases.add(k_)
                ok = (r == "MutateAll") == (eq is False)
                C.ob("R4", "required_right:%s:%s" % k_, ok, vn.loc(bi), "right %s when the previous author comparison is %s" % (r, eq))
        C.ob("R4", "required_right:kinds", {r for r, _ in seen_cases} == {"MutateSelf", "MutateAll"}, vn.loc(), "both kinds are selectable", nontrivial=False)
        # size limit and missing room return false
        ra = mir.return_assignments(vn)
        C.ob("R4", "validate_node:true-exit-unique", len(ra["true"]) == 1, vn.loc(), "one accepting exit", nontrivial=False)
    except mir.MissingAnchor as e:
        C.anchor_missing("R4", "validate_node", e)
    # deletions
    for fn in ("RoomAuthorisations::validate_edge_deletions", "RoomAuthorisations::validate_node_deletions"):
        try:
            b = P.body(fn)
            C.saw(b)
            ss = rights.can_sites(P, b)
            C.floor("R4", "can sites in " + fn.split("::")[-1], len(ss), 1)
            C.ob("R4", fn.split("::")[-1] + ":kinds", rights.canonical_kinds(b, ss) == rights.WANT_KINDS, b.loc(), "right kinds chosen for a deletion record: %s" % sorted(rights.canonical_kinds(b, ss)))
            for i, s in enumerate(ss):
                label = "%s:can#%d" % (fn.split("::")[-1], i)
                ok1, det = rights.check_refusal(b, s["block"])
                C.ob("R4", label + ":checked", ok1, s["loc"], det)
                right_kind_rule(C, "R4", s, label + ":kind")
                C.ob("R4", label + ":author-date", s["user"].endswith("verifying_key") and s["date"].endswith("deletion_date"), s["loc"], "decided for the record's author %s at the record's date %s" % (s["user"], s["date"]))
                C.ob("R4", label + ":room", s["room_key"] is not None and s["room_key"].endswith("room_id"), s["loc"], "keyed by the record's room: %s" % s["room_key"])
        except mir.MissingAnchor as e:
            C.anchor_missing("R4", fn, e)
    # ---------------- R5 / R6 actor arms
    try:
        pm = P.body("AuthorisationService::process_message::{closure#0}")
        C.saw(pm)
        edge_sites = [s for s in rights.can_sites(P, pm)]
        C.floor("R5", "edge decision site", len(edge_sites), 1)
        for s in edge_sites:
            ok1, det = rights.check_refusal(pm, s["block"])
            C.ob("R6", "AddEdges:checked", ok1, s["loc"], det)
            C.ob("R5", "AddEdges:author-date", s["user"] == "‹Edge›.verifying_key" and s["date"] == "‹Edge›.cdate", s["loc"], "for the reference's author at its date")
            eq, other = author_eq_for(s)
            C.ob("R5", "edge-replace-right", eq is not None and any(x["right"] == "MutateAll" for x in edge_sites), s["loc"],
                 "replacing a reference written by another author requires the all-rows right: previous-author comparison present=%s" % (eq is not None))
        # source row bound to the room
        bound = False
        for fn in ("GraphDatabase::add_edges::{closure#0}", "edge::Edge::write", "AuthorisationService::process_message::{closure#0}"):
            fb = P.body(fn, required=False)
            if fb is None:
                continue
            for _, _, text, _, _ in sql.statements(fb):
                if text and re.search(r"_node", text) and re.search(r"room_id", text):
                    bound = True
        C.ob("R5", "edge-source-room", bound, pm.loc(), "some function on the AddEdges path reads the room of the reference's source row (edge.src) before the reference is stored")
        # R6 arms
        for bi, t in pm.calls_to(r"BufferedDatabaseWriter::send$"):
            payload = pm.call_args(bi)[1]
            if payload[0] == "var":
                ds = pm.var_defs(payload)
                payload = ds[0] if len(ds) == 1 else payload
            var = None
            wm = None
            for s in mir.subterms(payload):
                if s[0] == "aggr" and s[2].endswith("WriteMessage"):
                    var, wm = s[3], s
                    break
            if var in ("Nodes", "Edges"):
                lst = strip_refs(wm[4][0])
                gate = r"validate_node$" if var == "Nodes" else r"Room::can$"
                ok, det = filtered_list(P, pm, lst, gate)
                C.ob("R6", "Add%s:write-list" % var, ok, pm.loc(bi), "WriteMessage::%s carries a list that holds only rows accepted by %s: %s" % (var, gate.strip("$"), det))
            elif var in ("DeleteEdges", "DeleteNodes"):
                lst = wm[4][0]
                fnre = r"validate_edge_deletions$" if var == "DeleteEdges" else r"validate_node_deletions$"
                src = pm.var_defs(strip_refs(wm[4][0]))
                src = src[0] if len(src) == 1 else None
                C.ob("R6", var + ":write-list", src is not None and mir.has_call(src, fnre) is not None, pm.loc(bi), "WriteMessage::%s carries the result of %s" % (var, fnre.strip("$")))
    except mir.MissingAnchor as e:
        C.anchor_missing("R5", "process_message", e)

    # ---------------- R8 deletion records are bound to the synchronised room
    try:
        sd = P.body("LocalPeerService::synchronise_day::{closure#0}")
        C.saw(sd)
        bound = {}
        for meth in ("delete_nodes", "delete_edges"):
            carries_room = False
            for bi, t in sd.calls_to(r"GraphDatabaseService::%s$" % meth):
                if any(field_path(a) == "room_id" for a in sd.call_args(bi)):
                    carries_room = True
            tested = False
            for fn in ("GraphDatabase::%s::{closure#0}" % meth, "RoomAuthorisations::validate_node_deletions" if meth == "delete_nodes" else "RoomAuthorisations::validate_edge_deletions"):
                fb = P.body(fn, required=False)
                if fb is None:
                    continue
                for bi2, t2 in fb.calls_to(r"::eq$"):
                    ps = [field_path(a) for a in fb.call_args(bi2)]
                    if any(p.endswith("room_id") for p in ps) and any(p == "room_id" or p.endswith(".room") for p in ps):
                        if len({p for p in ps}) == 2:
                            tested = True
            bound[meth] = carries_room and tested
        C.ob("R8", "deletion-room-binding", all(bound.values()), sd.loc(),
             "delete_nodes / delete_edges receive the verified records without the room being synchronised and no function on their path compares record.room_id with it (%s): "
             "a relaying member can deliver validly signed deletion records of any other room in the answer for this room, and they are applied" % bound)
    except mir.MissingAnchor as e:
        C.anchor_missing("R8", "synchronise_day", e)
