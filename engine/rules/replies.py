"""Shared analysis: what happens to the inner Result carried by a reply channel (`receive.await?` yields a Result<T, Error>)."""
import re
import mir


def payload_uses(b, bi):
    """how the Continue payload of the `?` in call block bi is used -> set of kinds (empty = dropped without inspection)"""
    t = b.blocks[bi]["t"]
    dest = t["dest"][0]
    tracked = set()
    kinds = set()
    for x in range(b.n):
        for st in b.blocks[x]["s"]:
            o = st["rv"].get("o") if st["rv"]["r"] == "use" else None
            src = (o.get("m") or o.get("c")) if o else None
            if src and src[0] == dest and "@Continue" in src:
                tracked.add(st["lhs"][0])
                if st["lhs"][0] == 0:
                    kinds.add("returned")
    changed = True
    while changed:
        changed = False
        for x in range(b.n):
            bl = b.blocks[x]
            for st in bl["s"]:
                rv = st["rv"]
                if rv["r"] == "use":
                    o = rv["o"]
                    src = o.get("m") or o.get("c")
                    if src and src[0] in tracked:
                        if len(st["lhs"]) == 1 and len(src) == 1:
                            if st["lhs"][0] == 0:
                                kinds.add("returned")
                            if st["lhs"][0] not in tracked:
                                tracked.add(st["lhs"][0])
                                changed = True
                        else:
                            kinds.add("projected")
                elif rv["r"] == "discr" and rv["p"][0] in tracked:
                    kinds.add("matched")
                elif rv["r"] == "ref" and rv["p"] and rv["p"][0] in tracked:
                    kinds.add("borrowed")
                elif rv["r"] == "aggr":
                    for o in rv.get("ops", []):
                        src = o.get("m") or o.get("c")
                        if src and src[0] in tracked:
                            kinds.add("stored")
            tt = bl["t"]
            if tt["k"] == "call":
                for a in tt["args"]:
                    src = a.get("m") or a.get("c")
                    if src and src[0] in tracked:
                        kinds.add("passed")
    return kinds


REPLY = re.compile(r"^std::result::Result<std::result::Result<.*RecvError>$")


def reply_sites(P, body_filter=None):
    """[(body, block)] of every `?` applied to an awaited reply whose payload is itself a Result"""
    out = []
    for b in sorted(P.bodies.values(), key=lambda x: x.id):
        if "::tests::" in b.id or "_test::" in b.id or "seeded_demo" in b.id or "defect_demo" in b.id:
            continue
        if body_filter and not body_filter(b):
            continue
        live = None
        for bi, t in b.calls():
            if mir.callee_name(t).endswith("Try>::branch") and REPLY.match(t.get("self") or ""):
                if live is None:
                    live = b.live_blocks()
                if bi in live and not b.blocks[bi]["cl"]:
                    out.append((b, bi))
    return out
