"""C09 — the daily log is a function of the stored content, nothing else."""
import re
import mir
import sql
from mir import term_str, strip_refs, callee_name, field_path, full_path
from rules import rights
from rules.c13 import variant_guard, arms_of, variants_of

WM = "database::sqlite_database::WriteMessage"
MARKING = {"Deletion", "Mutation", "MutationStream", "Nodes", "RoomMutation", "RoomMutationStream", "DeleteEdges", "DeleteNodes"}
EXEMPT = {
    "Edges": "references are not part of the daily hash; a changed reference re-dates its source row, which arrives as a Nodes write",
    "RoomNode": "room definitions are compared through _room_changelog at the start of every synchronisation, not through the daily log",
    "Write": "generic statements of the private room / configuration, outside the log",
    "ComputeDailyLog": "the recomputation itself",
    "Optimize": "no data",
}
# (writer, [(room path regex, date path regex, description)])
EXPECT = {
    "mutation_query::InsertEntity::update_daily_logs": [
        (r"node_to_mutate\.room_id$", r"node_to_mutate\.date$", "new room, new date"),
        (r"old_node\.room_id$", r"old_node\.mdate$", "old room, old date"),
        (r"edge_deletions_log\.\[\]\.room_id$", r"edge_deletions_log\.\[\]\.deletion_date$", "each reference deletion record"),
    ],
    "node::NodeToInsert::update_daily_logs": [
        (r"self\.node\.room_id$", r"self\.node\.mdate$", "room, new date"),
        (r"self\.old_room_id$", r"self\.old_mdate$", "old room, old date"),
    ],
    "deletion::DeletionQuery::update_daily_logs": [
        (r"edge_log\.\[\]\.room_id$", r"edge_log\.\[\]\.deletion_date$", "reference deletion record"),
        (r"node_log\.\[\]\.room_id$", r"node_log\.\[\]\.mdate$", "deleted row's day"),
        (r"node_log\.\[\]\.room_id$", r"node_log\.\[\]\.deletion_date$", "deletion day"),
        (r"updated_nodes\.\[\]\.room_id$", r"updated_nodes\.\[\]\.mdate$", "re-dated source row: new day"),
        (r"updated_nodes\.\[\]\.room_id$", r"old", "re-dated source row: previous day"),
    ],
    "node::NodeDeletionEntry::delete_all": [
        (r"^[^.]+\.\[\]\.room_id$", r"^[^.]+\.\[\]\.deletion_date$", "deletion day"),
        (r"^[^.]+\.\[\]\.room_id$", r"^[^.]+\.\[\]\.mdate$", "deleted row's day"),
    ],
    "edge::EdgeDeletionEntry::delete_all": [
        (r"^[^.]+\.\[\]\.room_id$", r"^[^.]+\.\[\]\.deletion_date$", "deletion day"),
    ],
}


def marks_of(b):
    out = []
    for bi, t in b.calls_to(r"DailyMutations::set_need_update$"):
        a = b.call_args(bi, expand_vars=True)
        g = b.guards(bi, expand_vars=True)
        ineq = rights.room_ineq(g)
        eqg = False
        for s, vals, term in g:
            atom, truth = mir.cond_atoms(term, vals)
            # any comparison (room ids, dates, days) on the way to the mark makes it conditional on how the
            # old and the new version relate; only `is there a previous version / a room` tests are expected
            if atom[0] == "call" and (atom[1].endswith("::eq") or atom[1].endswith("::ne")):
                eqg = True
            if atom[0] == "bin" and atom[1] in ("Eq", "Ne", "Lt", "Le", "Gt", "Ge"):
                eqg = True
        out.append({"block": bi, "room": full_path(b, a[1]), "entity": full_path(b, a[2]), "date": full_path(b, a[3]), "room_cmp_guard": eqg, "loc": b.loc(bi)})
    return out


def role_of(cp, carried, l):
    """which DailyLog field a carried hash mirrors: the field of the DailyLog literal (add_log) whose operand is the
    local the carried variable is assigned from on the recompute arm"""
    fields = {}
    for bi in cp.live_blocks():
        for si, st in enumerate(cp.blocks[bi]["s"]):
            rv = st["rv"]
            if rv["r"] == "aggr" and rv.get("adt", "").endswith("daily_log::DailyLog"):
                t = cp.def_term(bi, si, rv, 0)
                for fname, op in zip(t[5], t[4]):
                    u = mir.strip(op)
                    if u[0] == "var" and len(u) > 2:
                        fields[u[2]] = fname
    for (bi, si, rv, lhs) in carried[l][2]:
        if si is None:
            continue
        u = mir.strip(cp.def_term(bi, si, rv, 0))
        if u[0] == "var" and len(u) > 2 and u[2] in fields:
            return {"daily_hash": "hash", "history_hash": "history"}.get(fields[u[2]], fields[u[2]])
    return "#%d" % sorted(carried).index(l)


def run(P, C, tier):
    C.explanation = (
        "Static decision of the completeness of the recomputation marks: every write kind of the batch writer is classified "
        "(marks / exempt with reason) from the enum's variants, each marking writer passes the obligatory (room, entity, day) "
        "provenances to set_need_update with no dependence on a room comparison, the recomputation statement reads the same three "
        "sources on the same bounds ordered by signature, and both places that continue the history chain are guarded by the "
        "same (room, entity) predicate. Hash values are not computed.")
    C.rule("R2", "every WriteMessage variant is classified marking/exempt; a marking arm hands the batch's DailyMutations to a function that reaches set_need_update, after the write")
    C.rule("R3", "each writer marks the obligatory (room, entity, day) triples; the mark of the previous day does not depend on a room comparison")
    C.rule("R4", "the recomputation statement unions _node_deletion_log, _edge_deletion_log and _node on the same (room, entity, day) bounds, ordered by signature")
    C.rule("R5", "both branches that continue the history chain from the previous entry are guarded by previous_room == room AND previous_entity == entity")
    C.rule("R6", "set_need_update normalises the date to its day; the marks are written with need_recompute = 1 and reset the hash")
    try:
        pb = P.body("BufferedDatabaseWriter::process_batch_write")
        C.saw(pb)
    except mir.MissingAnchor as e:
        C.anchor_missing("R2", "process_batch_write", e)
        return
    wm = P.adts.get(WM)
    variants = [v["name"] for v in wm["variants"]] if wm else []
    reach_mark = None
    callees, callers = P.callgraph()
    target = [i for i in P.bodies if i.endswith("DailyMutations::set_need_update")]
    marking_fns = set()
    if target:
        # bodies from which set_need_update is reachable
        seen = set(target)
        work = list(target)
        while work:
            x = work.pop()
            for c in callers.get(x, ()):
                if c not in seen:
                    seen.add(c)
                    work.append(c)
        marking_fns = seen
    per_variant = {}
    for bi, t, ob, obi in pb.calls_incl_closures():
        args = ob.call_args(obi)
        if not any("DailyMutations" in ob.type_of_root(a) for a in args):
            continue
        name = callee_name(t)
        if name.endswith("DailyMutations::write") or name.endswith("default"):
            continue
        var = variant_guard(pb, bi, WM)
        for v_ in variants_of(var) or [var]:
            per_variant.setdefault(v_, []).append((bi, name, ob, obi))
    for v in variants:
        if v in EXEMPT:
            C.ob("R2", "variant:" + v, v not in per_variant or True, pb.loc(), "exempt: " + EXEMPT[v], nontrivial=False)
        elif v in MARKING:
            sites = per_variant.get(v, [])
            ok = bool(sites)
            det = []
            for bi, name, ob, obi in sites:
                reaches = any(x == name or x.endswith(name) or name.endswith(x) for x in marking_fns) or name in marking_fns
                # after the write of the same arm: the write call dominates the mark (or the callee is the write itself);
                # when the arm works through a closure (`try_for_each(|x| { x.write(conn)?; x.update_daily_logs(..) })`) the
                # order is decided inside the closure
                def _conn(xb, x):
                    return xb.type_of_root(x).endswith("rusqlite::Connection")
                if ob is pb:
                    writes = [wb for wb, wt in pb.live_calls() if v in variants_of(variant_guard(pb, wb, WM)) and any(_conn(pb, a) for a in pb.call_args(wb)) and wb != bi and not callee_name(wt).endswith("Connection::execute")]
                    after = all(pb.dominates(wb, bi) for wb in writes) if writes else any(_conn(pb, a) for a in pb.call_args(bi))
                else:
                    writes = [wb for wb, wt in ob.live_calls() if any(_conn(ob, a) for a in ob.call_args(wb)) and wb != obi and not callee_name(wt).endswith("Connection::execute")]
                    after = all(ob.dominates(wb, obi) for wb in writes) if writes else any(_conn(ob, a) for a in ob.call_args(obi))
                ok = ok and reaches and after
                det.append("%s reaches set_need_update=%s, after the write=%s" % (mir.short(name), reaches, after))
            C.ob("R2", "variant:" + v, ok, pb.loc(sites[0][0]) if sites else pb.loc(), "; ".join(det) or "no call receives &mut daily_log in this arm")
        else:
            C.ob("R2", "variant:" + v, False, pb.loc(), "unclassified WriteMessage variant: decide whether it changes hashed content")
    C.floor("R2", "WriteMessage variants", len(variants), 13)
    # ---- R3
    for fn, exps in EXPECT.items():
        try:
            b = P.body(fn)
        except mir.MissingAnchor as e:
            C.anchor_missing("R3", fn, e)
            continue
        C.saw(b)
        ms = marks_of(b)
        short = mir.short(b.id)
        for rre, dre, what in exps:
            hit = [m for m in ms if re.search(rre, m["room"]) and re.search(dre, m["date"])]
            ok = bool(hit)
            det = "%s marks (%s): %s" % (short, what, [(m["room"], m["date"]) for m in hit] or "MISSING")
            if ok and "old" in what or (ok and "previous" in what):
                dep = [m for m in hit if m["room_cmp_guard"]]
                if dep:
                    ok = False
                    det += " -- but only under a comparison between the old and the new version (room or day): the mark of the previous (room, day) must be unconditional, every combination of same/other room and same/other day changes that day's content"
            C.ob("R3", "%s:%s" % (short, what.replace(" ", "-").replace(",", "")), ok, hit[0]["loc"] if hit else b.loc(), det)
        # a writer that recurses into sub-entities does so on every path: a child row can belong to a room although
        # its parent does not (explicit room_id on the sub-entity), so the recursion must not hang on the parent's state
        rec, heads = mir.recursion_loops(b)
        if rec:
            ok = bool(heads) and not (b.reachable(0, avoid_blocks=set(heads)) & set(b.exits()))
            C.ob("R3", "%s:sub-entities-always-visited" % short, ok, b.loc(rec[0]), "every path through %s reaches a loop that recurses into the sub-entities (no early exit on the parent's room or version)" % short)
        # entity argument belongs to the same row as the room
        for m in ms:
            base_r = m["room"].rsplit(".", 1)[0]
            C.ob("R3", "%s:entity-of-same-row:%s" % (short, m["date"].split(".")[-1] + "@" + base_r.split(".")[-1]),
                 m["entity"].split(".")[-1] in ("_entity", "entity", "src_entity"), m["loc"], "entity argument %s" % m["entity"], nontrivial=False)
    # the wrappers delegate to InsertEntity::update_daily_logs
    for fn in ("mutation_query::MutationQuery::update_daily_logs", "RoomMutationWriteQuery::update_daily_logs", "RoomMutationStreamWriteQuery::update_daily_logs"):
        b = P.body(fn, required=False)
        if b is None:
            C.anchor_missing("R3", fn, "missing")
            continue
        reach = P.reachable_from([b.id])
        C.ob("R3", "delegates:" + mir.short(b.id), any(x.endswith("InsertEntity::update_daily_logs") for x in reach), b.loc(), "reaches InsertEntity::update_daily_logs for every mutated entity")
    # ---- R4 / R5
    try:
        cp = P.body("daily_log::DailyLogsUpdate::compute")
        C.saw(cp)
        texts = [sql.norm(text) for _, _, text, _, _ in sql.statements(cp) if text]
        comp = [t for t in texts if "UNION ALL" in t.upper()]
        ok = len(comp) == 1
        det = "one UNION statement"
        if ok:
            t = re.sub(r"--[^\n]*", "", [text for _, _, text, _, _ in sql.statements(cp) if text and "UNION ALL" in text.upper()][0])
            t = sql.norm(t)
            parts = re.split(r"UNION ALL", t, flags=re.I)
            want = [("_node_deletion_log", "entity", "deletion_date", "signature"), ("_edge_deletion_log", "src_entity", "deletion_date", "signature"), ("_node", "_entity", "mdate", "_signature")]
            got = []
            for tab, ent, dat, sig in want:
                p = [x for x in parts if re.search(r"FROM\s+%s\b" % tab, x, re.I)]
                good = len(p) == 1 and re.search(r"room_id\s*=\s*\?1", p[0]) and re.search(r"\b%s\s*=\s*\?2" % ent, p[0]) \
                    and re.search(r"%s\s*>=\s*\?3\s+AND\s+%s\s*<\s*\?4" % (dat, dat), p[0], re.I) and re.search(r"SELECT\s+%s\b" % sig, p[0], re.I)
                got.append(bool(good))
                C.ob("R4", "source:" + tab, bool(good), cp.loc(), "daily hash reads %s on (room=?1, %s=?2, ?3 <= %s < ?4)" % (tab, ent, dat))
            C.ob("R4", "ordered", bool(re.search(r"ORDER\s+BY\s+signature\s*$", t, re.I)), cp.loc(), "the union is ordered by signature (order of storage does not influence the hash)")
            C.ob("R4", "three-sources", len(parts) == 3, cp.loc(), "exactly three sources", nontrivial=False)
            # bounds: (room, entity, date, date_next_day(date))
            for bi, t2 in cp.calls_to(r"Statement.*::query$"):
                a = cp.call_args(bi, expand_vars=True)
                params = strip_refs(a[1])
                if params[0] == "aggr" and len(params[4]) == 4:
                    p3, p4 = params[4][2], params[4][3]
                    nd = mir.has_call(p4, r"date_utils::date_next_day$")
                    C.ob("R4", "day-bounds", nd is not None and strip_refs(nd[2][0]) == strip_refs(p3), cp.loc(bi), "bounds are [date, date_next_day(date))")
        else:
            C.ob("R4", "statement", False, cp.loc(), det)
        # R5: history continuation.  Everything is identified structurally: the processing loop is the loop that
        # contains the UPDATEs of _daily_log; a carried variable is defined before that loop and assigned inside it.
        upd = [bi for bi, t in cp.calls_to(r"Statement::execute$")]
        hdr = None
        for hb, ht in cp.live_calls():
            if not callee_name(ht).endswith("::next"):
                continue
            loop = {x for x in cp.reach_after(hb) if hb in cp.reach_after(x)}
            if upd and all(u in loop for u in upd) and (hdr is None or hb in hdr[1]):
                hdr = (hb, loop)
        if hdr is None:
            raise mir.MissingAnchor("the loop of DailyLogsUpdate::compute that updates _daily_log")
        H, LOOP = hdr
        carried = {}
        for l, nme, lty, leaf in cp.named_locals():
            ds = [(bi, si, rv, lhs) for (bi, si, rv, lhs) in cp.defs().get(l, ()) if len(lhs) == 1 and not cp.blocks[bi]["cl"] and bi in cp.live_blocks()]
            if any(bi not in LOOP and cp.dominates(bi, H) for bi, si, rv, lhs in ds) and any(bi in LOOP for bi, si, rv, lhs in ds):
                carried[l] = (nme, lty, ds)

        def carried_of(t, ty_re):
            """the carried variable (of a type) a term is rooted in, looking through `if let Some(x) = &carried` and
            through the parameters of an inlined helper"""
            seen_l = set()
            frontier = [t]
            for _ in range(5):
                nxt = []
                for tm in frontier:
                    for x in mir.subterms(tm):
                        if x[0] == "var" and len(x) > 2 and x[2] not in seen_l:
                            seen_l.add(x[2])
                            if x[2] in carried and re.search(ty_re, carried[x[2]][1]):
                                return x[2]
                            nxt += cp.var_defs(x)
                frontier = nxt
                if not frontier:
                    break
            return None
        n = 0
        seen_sites = set()
        for bi, t in cp.calls_to(r"blake3::Hasher::update$"):
            if bi not in LOOP:
                continue
            a = cp.call_args(bi)
            src = carried_of(a[1], r"Option<.*Vec<u8>>")
            if src is None:
                continue
            room_eq = ent_eq = False
            rec = "carry-over"
            for atom, truth in cp.guard_atoms(bi, expand_vars=False):
                if atom[0] == "call" and atom[1].endswith("::eq") and truth is True and len(atom[2]) == 2:
                    x, y = atom[2]
                    for ty_re, which in ((r"^\[u8; 16\]$", "room"), (r"String$", "entity")):
                        cx, cy = carried_of(x, ty_re), carried_of(y, ty_re)
                        tx, ty_ = cp.root_type(mir.strip(x)), cp.root_type(mir.strip(y))
                        if (cx is None) != (cy is None) and re.search(ty_re, mir.short_type(tx)) and re.search(ty_re, mir.short_type(ty_)):
                            if which == "room":
                                room_eq = True
                            else:
                                ent_eq = True
                if atom[0] == "var" and len(atom) > 2 and atom[2] not in carried and cp.locals[atom[2]] == "bool" and truth is True:
                    rec = "recompute"
            if (rec, src) in seen_sites:
                continue
            seen_sites.add((rec, src))
            n += 1
            label = "chain:" + rec if re.search(r"history", role_of(cp, carried, src)) else "chain:%s:%s" % (rec, role_of(cp, carried, src))
            C.ob("R5", label, room_eq and ent_eq, cp.loc(bi), "history chained from the previous entry only when previous room == room (%s) and previous entity == entity (%s)" % (room_eq, ent_eq))
        C.floor("R5", "history continuation sites", n, 2)
        # the carried values: after every row, the carried hashes hold that row's (stored or computed) hashes; a literal
        # None makes the next recomputed day start an empty chain although a predecessor exists
        for l, (nme, lty, ds) in sorted(carried.items()):
            if not re.search(r"Option<.*Vec<u8>>", lty):
                continue
            role = role_of(cp, carried, l)
            bad = []
            good = 0
            for (bi, si, rv, lhs) in ds:
                if si is None or bi not in LOOP:
                    continue
                u = strip_refs(cp.def_term(bi, si, rv, 0))
                if u[0] == "aggr" and u[3] == "None":
                    bad.append("%s:%d" % (cp.file, cp.blocks[bi]["s"][si]["at"][0]))
                else:
                    good += 1
            C.ob("R5", "carried:previous_" + role, not bad and good >= 2, bad[0] if bad else cp.loc(),
                 "inside the row loop the carried %s is always taken from the current row (stored or just computed); assignments of a literal None: %s -- after a predecessor row that is not "
                 "recomputed the next recomputed day then gets no history hash, so the chained history depends on which days are recomputed together" % (role, bad or "none"))
        # add_log on the recompute arm
        al = cp.calls_to(r"DailyLogsUpdate::add_log$")
        # every iteration that recomputes a day (it queries the day's signatures) reports the day: on every path from that query
        # to the next iteration or the normal return an add_log call is passed
        qs = [qb for qb, qt in cp.calls_to(r"Statement.*::query$") if len(strip_refs(cp.call_args(qb)[1])[4] if strip_refs(cp.call_args(qb)[1])[0] == "aggr" else []) == 4]
        reported = bool(al) and bool(qs)
        for qb in qs:
            hdr_ = rights.enclosing_loop_header(cp, qb)
            r_ = cp.reach_after(qb, avoid_blocks={x for x, _ in al})
            if (hdr_ is not None and hdr_ in r_) or (r_ & set(mir.return_assignments(cp)["Ok"])):
                reported = False
        C.ob("R5", "recomputed-entries-reported", reported, cp.loc(), "every recomputed entry is added to the update on every path of its iteration (feeds C18): %d add_log site(s)" % len(al))
    except mir.MissingAnchor as e:
        C.anchor_missing("R4", "compute", e)
    # ---- R6
    try:
        sn = P.body("DailyMutations::set_need_update")
        C.saw(sn)
        ins = sn.calls_to(r"HashSet::insert$")
        ok = len(ins) == 1 and mir.has_call(sn.call_args(ins[0][0], expand_vars=True)[1], r"date_utils::date$") is not None
        C.ob("R6", "day-normalised", ok, sn.loc(), "the marked date is date(mut_date)")
        w = P.body("daily_log::DailyMutations::write")
        texts = [sql.norm(t) for _, _, t, _, _ in sql.statements(w) if t]
        ok = any(re.search(r"need_recompute\s*=\s*1", t) and re.search(r"daily_hash\s*=\s*NULL", t) and "ON CONFLICT" in t.upper() for t in texts)
        C.ob("R6", "mark-statement", ok, w.loc(), "upsert sets need_recompute=1 and clears daily_hash")
    except mir.MissingAnchor as e:
        C.anchor_missing("R6", "set_need_update", e)
    r7_cursor_writes(P, C)
    r8_window_per_chain(P, C)
    r9_emptied_day(P, C)
    r10_window_open_ended(P, C, "R10")


READ_T = re.compile(r"\b(?:FROM|JOIN)\s+([A-Za-z_][A-Za-z0-9_]*)", re.I)
WRITE_T = re.compile(r"\b(?:UPDATE\s+(?:OR\s+\w+\s+)?|INSERT\s+(?:OR\s+\w+\s+)?INTO\s+|DELETE\s+FROM\s+|REPLACE\s+INTO\s+)([A-Za-z_][A-Za-z0-9_]*)", re.I)
LOG_TABLES = {"_daily_log", "_node", "_edge", "_node_deletion_log", "_edge_deletion_log"}


def _stmt_text(b, term):
    for x in mir.subterms(term):
        if x[0] == "call" and re.search(sql.PREPARE, x[1]) and len(x[2]) >= 2:
            t, _ = sql.text_of(x[2][1])
            if t:
                return t
    return None


def r7_cursor_writes(P, C):
    """SQLite leaves undefined which rows a SELECT that is still being stepped returns once its table is modified
    (rows can be skipped or returned twice).  The log is then a function of the visiting accident, not of the content."""
    C.rule("R7", "no statement writes a table of the daily log computation (_daily_log, _node, _edge, deletion logs) inside the loop that is still stepping a SELECT over that table (directly or through a callee)")
    callees, _ = P.callgraph()
    wsets = {}
    for b in P.bodies.values():
        s_ = set()
        for bi, cn, text, holes, term in sql.statements(b):
            if text:
                s_ |= set(WRITE_T.findall(text))
        wsets[b.id] = s_

    def trans(fid, seen):
        out = set(wsets.get(fid, ()))
        for c in callees.get(fid, ()):
            if c not in seen:
                seen.add(c)
                out |= trans(c, seen)
        return out
    n = 0
    for b in P.bodies.values():
        if not b.file.startswith("src/") or b.file.endswith("_test.rs") or b.from_expansion:
            continue
        for nb, nt in b.calls_to(r"Rows::next$"):
            rows = b.call_args(nb, expand_vars=True)[0]
            q = mir.has_call(rows, r"Statement::query$")
            if q is None:
                continue
            text = _stmt_text(b, q[2][0])
            if not text:
                continue
            reads = set(READ_T.findall(text)) & LOG_TABLES
            if not reads:
                continue
            n += 1
            after = b.reach_after(nb)
            loop = {x for x in after if nb in b.reach_after(x)}
            bad = []
            for wb in sorted(loop):
                t = b.blocks[wb]["t"]
                if t["k"] != "call":
                    continue
                cn = callee_name(t)
                w = set()
                if re.search(r"Statement::(execute|insert)$", cn):
                    tx = _stmt_text(b, b.call_args(wb, expand_vars=True)[0])
                    w = set(WRITE_T.findall(tx)) if tx else {"?"}
                elif re.search(r"Connection::execute$", cn):
                    tx, _ = sql.text_of(b.call_args(wb, expand_vars=True)[1])
                    w = set(WRITE_T.findall(tx)) if tx else {"?"}
                else:
                    for name in (t.get("rf"), t.get("f"), mir.normalize(t.get("rf") or ""), mir.normalize(t.get("f") or "")):
                        if name and name in P.bodies:
                            w |= trans(name, {name})
                hit = (w & reads) or ("?" in w)
                if hit:
                    bad.append("%s writes %s" % (b.loc(wb), sorted(w & reads) or "an unknown table"))
            C.saw(b)
            C.ob("R7", "cursor:%s:%s" % (mir.short(b.id), "+".join(sorted(reads))), not bad, b.loc(nb),
                 "rows of %s are stepped by this loop; writes to the same table inside the loop: %s" % (sorted(reads), bad or "none"))
    C.floor("R7", "cursors over the tables of the log computation", n, 8)



def _strip_sql_comments(t):
    return re.sub(r"--[^\n]*", "", t)


def _paren_segments(t):
    """[(depth, text)] of every parenthesised segment, innermost first; nested segments are blanked in their parents"""
    out = []
    stack = []
    for i, c in enumerate(t):
        if c == "(":
            stack.append(i)
        elif c == ")" and stack:
            j = stack.pop()
            out.append((len(stack) + 1, j, i))
    segs = []
    for depth, j, i in out:
        inner = t[j + 1:i]
        # blank nested parentheses
        flat = ""
        d = 0
        for c in inner:
            if c == "(":
                d += 1
            if d == 0:
                flat += c
            if c == ")":
                d -= 1
        segs.append((depth, flat))
    return segs


def r8_window_per_chain(P, C):
    C.rule("R8", "the history hash chains the days of ONE (room, entity): in the statement that selects the log rows to recompute, every sub-select over _daily_log "
                 "(the predecessor day, the first marked day) is tied to the outer row by room_id AND entity (or groups by both), and every join with it matches both; "
                 "a predecessor looked up by room only picks another entity's day, the chain restarts there and the history hash depends on which days were marked together")
    try:
        cp = P.body("daily_log::DailyLogsUpdate::compute")
    except mir.MissingAnchor as e:
        C.anchor_missing("R8", "compute", e)
        return
    n = 0
    for bi, callee, text, holes, term in sql.statements(cp):
        if not text or not re.search(r"^\s*(WITH\b.*?\)\s*)?SELECT\b", _strip_sql_comments(text), re.I | re.S) or "_daily_log" not in text:
            continue
        t = _strip_sql_comments(text)
        if not re.search(r"need_recompute", t):
            continue
        eq = lambda col, seg: re.search(r"(\w+\.)?%s\s*=\s*(\w+\.)?%s\b" % (col, col), seg) is not None
        subs = [(d, seg) for d, seg in _paren_segments(t) if re.match(r"\s*SELECT\b", seg, re.I) and re.search(r"\bFROM\s+_daily_log\b", seg, re.I)]
        for k, (d, seg) in enumerate(subs):
            n += 1
            grouped = re.search(r"GROUP\s+BY\s+(\w+\.)?room_id\s*,\s*(\w+\.)?entity\b", seg, re.I) is not None
            ok = grouped or (eq("room_id", seg) and eq("entity", seg))
            C.ob("R8", "sub-select-per-chain#%d" % k, ok, cp.loc(bi), "`%s`: tied to the outer row by room_id=%s entity=%s, grouped by both=%s" % (
                sql.norm(seg)[:70], eq("room_id", seg), eq("entity", seg), grouped))
        # joins
        flat = "".join(c for c in t)
        for k, m in enumerate(re.finditer(r"\bJOIN\b(.*?)\bON\b(.*?)(?=\bWHERE\b|\bJOIN\b|\bORDER\b|$)", t, re.I | re.S)):
            n += 1
            on = m.group(2)
            ok = eq("room_id", on) and eq("entity", on)
            C.ob("R8", "join-per-chain#%d" % k, ok, cp.loc(bi), "JOIN %s ON %s" % (sql.norm(m.group(1))[:30], sql.norm(on)[:70]))
        C.ob("R8", "window-ordered-by-chain", re.search(r"ORDER\s+BY\s+(\w+\.)?room_id\s*,\s*(\w+\.)?entity\s*,\s*(\w+\.)?date\s*$", t.strip(), re.I) is not None, cp.loc(bi),
             "rows are delivered chain by chain in date order (ORDER BY room_id, entity, date)")
    C.floor("R8", "sub-selects and joins of the window statement", n, 3)


def r9_emptied_day(P, C):
    C.rule("R9", "two peers that store the same rows have identical logs: a recomputed day that no longer contains any row or deletion record leaves the log -- "
                 "its _daily_log row is deleted on the `entry count == 0` edge, and that iteration neither writes the computed-day UPDATE nor advances the "
                 "chain (a kept empty day `(0, NULL, NULL)` makes every later history hash of the chain NULL, while a peer that only received the later version "
                 "has no such entry)")
    try:
        cp = P.body("daily_log::DailyLogsUpdate::compute")
    except mir.MissingAnchor as e:
        C.anchor_missing("R9", "compute", e)
        return
    dels = []
    upds = []
    for bi, callee, text, holes, term in sql.statements(cp):
        if not text:
            continue
        tx = sql.norm(text)
        if re.match(r"DELETE\s+FROM\s+_daily_log\b", tx, re.I):
            dels.append((bi, tx))
        if re.match(r"UPDATE\s+_daily_log\s+SET\s+entry_number", tx, re.I):
            upds.append(bi)

    def execs_of(prep):
        out = []
        for qb, qt in cp.calls_to(r"Statement.*::execute$"):
            pc = mir.has_call(cp.call_args(qb, expand_vars=True)[0], r"::prepare(_cached)?$")
            if pc is not None and pc[3] == prep:
                out.append(qb)
        return out
    ok = False
    detail = "compute never deletes a _daily_log row: a day emptied by a later version of its only row stays in the log as (0, NULL, NULL) and breaks the chain"
    if dels:
        addressed = all(re.search(r"room_id\s*=\s*\?", t) and re.search(r"entity\s*=\s*\?", t) and re.search(r"date\s*=\s*\?", t) for _, t in dels)
        del_execs = [x for d, _ in dels for x in execs_of(d)]
        upd_execs = [x for u in upds for x in execs_of(u)]
        guarded = True
        for dx in del_execs:
            g = False
            for s_, vals, term in cp.implied_guards(dx, expand_vars=True):
                atom, truth = mir.cond_atoms(term, vals)
                if atom[0] == "bin" and atom[1] == "Eq" and truth is True and any(strip_refs(x)[0] == "const" and strip_refs(x)[1] == 0 for x in atom[2:4]):
                    g = True
                if atom[0] == "bin" and atom[1] == "Ne" and truth is False and any(strip_refs(x)[0] == "const" and strip_refs(x)[1] == 0 for x in atom[2:4]):
                    g = True
            guarded = guarded and g
        hdr = rights.enclosing_loop_header(cp, del_execs[0]) if del_execs else None
        skips_update = bool(del_execs) and hdr is not None and all(not any(u in cp.reach_after(dx, avoid_blocks={hdr}) for u in upd_execs) for dx in del_execs)
        ok = addressed and bool(del_execs) and guarded and skips_update and bool(upd_execs)
        detail = "DELETE addressed by (room, entity, date): %s; executed only when the recomputed count is 0: %s; the iteration then skips the computed-day UPDATE: %s" % (addressed, guarded, skips_update)
    C.ob("R9", "emptied-day-leaves-the-log", ok, cp.loc(dels[0][0]) if dels else cp.loc(), detail)


def r10_window_open_ended(P, C, R):
    """Each day's history hash is derived from the previous day's: a change on day d changes the history hash of EVERY later day
    of the chain. The statement that selects the log rows to recompute must therefore deliver every day from the first marked
    day to the END of the chain: a lower bound on date only. An upper bound (or a LIMIT) leaves the later days with a history hash
    computed from the old content, and two peers compare rooms by the last day's hashes only."""
    C.rule(R, "the window of log rows that compute() re-chains is open-ended: at the top level of the selecting statement, date has a lower bound only "
              "(no `date <`/`<=`/BETWEEN, no LIMIT), so every day after a changed day gets a new history hash and the last-day summary that peers compare changes")
    try:
        cp = P.body("daily_log::DailyLogsUpdate::compute")
    except mir.MissingAnchor as e:
        C.anchor_missing(R, "compute", e)
        return
    C.saw(cp)
    n = 0
    for bi, callee, text, holes, term in sql.statements(cp):
        if not text or "_daily_log" not in text or not re.search(r"need_recompute", text):
            continue
        t = _strip_sql_comments(text)
        if not re.search(r"^\s*(WITH\b.*?\)\s*)?SELECT\b", t, re.I | re.S):
            continue
        # depth-0 skeleton: parenthesised parts become `()`
        sk, depth = [], 0
        for c in t:
            if c == "(":
                if depth == 0:
                    sk.append("()")
                depth += 1
            elif c == ")":
                depth -= 1
            elif depth == 0:
                sk.append(c)
        sk = " ".join("".join(sk).split())
        m = re.search(r"\bWHERE\b(.*?)(\bORDER\s+BY\b|\bGROUP\s+BY\b|\bLIMIT\b|$)", sk, re.I | re.S)
        where = m.group(1) if m else ""
        col = r"(\w+\.)?date"
        lower = re.search(col + r"\s*>=?\s*(\(\)|\?)|(\(\)|\?)\s*<=?\s*" + col + r"\b", where, re.I) is not None
        upper = re.search(col + r"\s*(<=?|BETWEEN\b)|(\(\)|\?\d*)\s*>=?\s*" + col + r"\b", where, re.I)
        limit = re.search(r"\bLIMIT\b", sk, re.I)
        n += 1
        ok = lower and upper is None and limit is None
        C.ob(R, "window-open-ended", ok, cp.loc(bi), "top level of the statement: `%s`; lower bound on date: %s, upper bound: %s, LIMIT: %s%s" % (
            sk[:160], lower, upper.group(0) if upper else "none", "yes" if limit else "none",
            "" if ok else " -- the days after the last selected day keep a history hash computed from the old content of the earlier days: "
            "the last-day summary does not change and peers conclude there is nothing to synchronise"))
    C.floor(R, "window statements of compute", n, 1)
