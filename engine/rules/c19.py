"""C19 — connections are trusted only after key proof; invites are single-use."""
import re
import mir
from mir import term_str, strip_refs, callee_name, field_path, full_path
from rules import rights

INIT = "LocalPeerService::initialise_connection::{closure#0}"


def ok_edge_block(b, call_block):
    """the block entered when `call?` succeeded"""
    re_ = mir.result_edges(b, call_block)
    if re_ is None or re_["via"] != "?":
        return None
    return re_["ok"]


def def1(b, t):
    """one-level definition of a variable term (names of the operands are kept)"""
    for _ in range(4):
        u = mir.strip(t)
        if u[0] != "var":
            break
        ds = b.var_defs(u)
        if len(ds) != 1:
            break
        t = ds[0]
    return t


PROVEN = "‹IdentityAnswer›.peer.verifying_key"     # the key of the peer row whose proof was verified (type-rooted path)


def is_remote_key(b, t):
    """the term reaches the connection's remote key cell: a variable of type Arc<Mutex<Vec<u8>>> (by type, not by name)"""
    for x in mir.subterms(t):
        if x[0] in ("var", "param") and len(x) > 2 and re.search(r"Arc<Mutex<Vec<u8>>>$", mir.short_type(b.locals[x[2]])):
            return True
        if x[0] == "upvar" and re.search(r"Arc<Mutex<Vec<u8>>>$", mir.short_type(b.upvar_type(x[1]))):
            return True
        if x[0] == "var" and len(x) > 2:
            for d in b.var_defs(x):
                for y in mir.subterms(d):
                    if y[0] in ("var", "param") and len(y) > 2 and re.search(r"Arc<Mutex<Vec<u8>>>$", mir.short_type(b.locals[y[2]])):
                        return True
    return False


def token_arm(b, bi):
    for s, vals, term in b.guards(bi):
        dv = mir.discr_variants(term, vals)
        if dv and term[2].endswith("TokenType") and len(dv[1]) == 1:
            return dv[1][0]
    return None


def r6(P, C):
    def cstr(body, bi, t):
        return "%s(%s)" % (t["nf"], ", ".join(term_str(x) for x in body.call_args(bi)))
    try:
        a = P.body("PeerManager::accept_invite::{closure#0}")
        C.saw(a)
        effects = []
        for bi, t in a.calls_to(r"(system_entities::Invite::insert|Vec::push|HashMap::insert|HashMap::entry)$"):
            s = cstr(a, bi, t)
            if t["nf"].endswith("Invite::insert") or ".allowed_token" in s or ".invites" in s or "TokenType::Invite" in s:
                effects.append((bi, t, s))
        C.floor("R6", "effects of accepting an invitation (stored row, token entry, token type, invitation list)", len(effects), 4)
        for n, (bi, t, s) in enumerate(effects):
            ok = False
            for sw, vals, term in a.guards(bi):
                atom, truth = mir.cond_atoms(term, vals)
                u = mir.strip(atom)
                if u[0] == "call" and re.search(r"::eq$", u[1]) and truth is True:
                    ops = sorted(a.cpath(x) for x in u[2])
                    if ops == ["‹Invite›.application", "‹PeerManager›.app_key"]:
                        ok = True
            C.ob("R6", "accept:%s#%d" % (t["nf"].split("::")[-1], n), ok, a.loc(bi), "%s only when inv.application == self.app_key" % s[:80])
        eqs = [bi for bi, t in a.calls_to(r"::eq$") if "application" in cstr(a, bi, t)]
        refused = False
        for blk in mir.return_assignments(a)["Err"]:
            txt = " ".join(term_str(a.def_term(blk, si, st["rv"], 0)) for si, st in enumerate(a.blocks[blk]["s"]) if st["lhs"] == [0])
            if "InvalidInvite" not in txt:
                continue
            for sw, vals, term in a.guards(blk):
                atom, truth = mir.cond_atoms(term, vals)
                if "application" in term_str(atom) and truth is False:
                    refused = True
        C.ob("R6", "other-application-refused", refused, a.loc(eqs[0]) if eqs else a.loc(), "the unequal edge returns Err(InvalidInvite)")
    except mir.MissingAnchor as e:
        C.anchor_missing("R6", "PeerManager::accept_invite", e)
    try:
        h = P.body("system_entities::Invite::hash_val")
        C.saw(h)
        ups = [h.cpath(h.call_args(bi)[1]) for bi, t in h.calls_to(r"Hasher::update$")]
        C.ob("R6", "digest-covers-application", "‹String›" in ups and "‹[u8; 16]›" in ups, h.loc(),
             "the digest signed by the inviter covers the invitation id (Uid) and the application name (String): %s" % ups)
        cr = P.body("PeerManager::create_invite::{closure#0}")
        C.saw(cr)
        ic = cr.calls_to(r"system_entities::Invite::create$")
        ok = len(ic) == 1 and cr.cpath(cr.call_args(ic[0][0])[2]) == "‹PeerManager›.app_key"
        C.ob("R6", "created-for-own-application", ok, cr.loc(ic[0][0]) if ic else cr.loc(), "Invite::create(.., application = self.app_key, ..)")
        ci = P.body("system_entities::Invite::create::{closure#0}")
        C.saw(ci)
        hv = ci.calls_to(r"Invite::hash_val$")
        sg = ci.calls_to(r"GraphDatabaseService::sign$")
        # the application named by the invitation literal is the one whose name is hashed
        app = None
        for bi_ in ci.live_blocks():
            for si_, st_ in enumerate(ci.blocks[bi_]["s"]):
                rv_ = st_["rv"]
                if rv_["r"] == "aggr" and rv_.get("adt", "").endswith("system_entities::Invite"):
                    t_ = ci.def_term(bi_, si_, rv_, 0)
                    app = mir.strip(t_[4][t_[5].index("application")])
        ok = (len(hv) == 1 and len(sg) == 1 and app is not None and mir.strip(ci.call_args(hv[0][0])[1])[:3] == app[:3]
              and mir.has_call(ci.call_args(sg[0][0], expand_vars=True)[1], r"Invite::hash_val$") is not None)
        C.ob("R6", "signed-digest-names-application", ok, ci.loc(), "the invitation signature is over hash_val(invite_id, application)")
    except mir.MissingAnchor as e:
        C.anchor_missing("R6", "Invite::hash_val / create", e)


def r7(P, C):
    """necessary condition of "the same token on both sides": the token of two distinct keys is a function of the
    x25519 shared secret only (symmetric in the two key pairs); any other input (own public key, a local value)
    would make the two sides derive different tokens.  The shared secret itself is arithmetic: not decided."""
    try:
        b = P.body("security::MeetingSecret::token")
        C.saw(b)
        hs = b.calls_to(r"security::hash$")
        C.floor("R7", "hash calls of MeetingSecret::token", len(hs), 2)
        for bi, t in hs:
            arg = b.call_args(bi, expand_vars=True)[0]
            same = None
            for sw, vals, term in b.guards(bi):
                atom, truth = mir.cond_atoms(term, vals)
                if atom[0] == "call" and atom[1].endswith("::eq") and mir.has_call(atom, r"MeetingSecret::public_key$") is not None:
                    same = truth
            txt = term_str(arg)
            leaves = sorted(set(b.cpath(x) for x in mir.leaves(arg) if x[0] in ("var", "param", "upvar", "field")))
            if same is True:
                ok = "diffie_hellman" not in txt and all(re.search(r"^‹MeetingSecret›(\.secret)?$", l) for l in leaves)
                C.ob("R7", "same-key-token", ok, b.loc(bi), "own key on both sides: token = hash(own secret): %s" % txt[:80])
            else:
                dh = mir.has_call(arg, r"StaticSecret::diffie_hellman$")
                ok = same is False and dh is not None and all(re.search(r"^(‹MeetingSecret›(\.secret)?|‹PublicKey›)$", l) for l in leaves)
                inner = [x for x in mir.subterms(arg) if x[0] == "call" and not re.search(r"diffie_hellman$|as_bytes$", x[1])]
                ok = ok and not inner
                C.ob("R7", "pair-token-is-shared-secret-only", ok, b.loc(bi), "token of two distinct keys = hash(x25519(own secret, their public)) and nothing else: %s" % txt[:90])
        cp = b.calls_to(r"copy_from_slice$")
        ok = len(cp) == 1 and mir.has_call(b.call_args(cp[0][0], expand_vars=True)[1], r"security::hash$") is not None and re.search(r"^\[u8; \d+\]$", mir.short_type(b.root_type(mir.strip(b.call_args(cp[0][0])[0])))) is not None
        C.ob("R7", "token-is-hash-prefix", ok, b.loc(cp[0][0]) if cp else b.loc(), "the token is a prefix of that hash")
    except mir.MissingAnchor as e:
        C.anchor_missing("R7", "MeetingSecret::token", e)


def run(P, C, tier):
    C.explanation = (
        "Static decision of the handshake ordering on the coroutine CFG of initialise_connection and of its caller: the "
        "verification of the remote side's signature over a challenge drawn from random32() in the same body, and the "
        "validation of the presented peer row, dominate every store of the remote key, every invitation consumption, the "
        "`connected` report and the Ready events; token-type specific checks (expected key equality, invitation signature) "
        "dominate the store of their arm; every failing outcome reaches disconnect and returns before the event loop. "
        "Not decided: values of derived meeting tokens, timeouts, the race of two connections on one invitation (known finding).")
    C.rule("R1", "proof.verify(&challenge)? with challenge = random32() of this body, and Peer::validate(&proof.peer)?, dominate every trust effect")
    C.rule("R2", "AllowedPeer: the key store is on the true edge of expected_key == proof.peer.verifying_key and the false edge returns Err; Invite: the invitation signature is verified under the prover's key before the store")
    C.rule("R3", "in LocalPeerService::start, Ok(false) and Err of initialise_connection reach disconnect and return before the event loop")
    C.rule("R4", "the challenge sent to the peer is the one verified; the identity answer is verified under the key of the presented peer row")
    C.rule("R5", "an invitation is consumed once: invite_accepted tests that the invitation is still present before its effects, deletes it and removes its token")
    C.rule("R6", "an invitation is accepted only for the application it names: storing it and arming its meeting token lie on the equal edge of inv.application == self.app_key; the signed invitation digest covers the application name; created invitations name this instance's application")
    r6(P, C)
    C.rule("R7", "necessary condition of token symmetry: the token for two distinct keys hashes the x25519 shared secret and nothing else")
    r7(P, C)
    try:
        b = P.body(INIT)
    except mir.MissingAnchor as e:
        C.anchor_missing("R1", "initialise_connection", e)
        return
    C.saw(b)
    ver = b.calls_to(r"IdentityAnswer::verify$")
    val = b.calls_to(r"system_entities::Peer::validate$")
    C.ob("R1", "verify-call", len(ver) == 1, b.loc(), "exactly one IdentityAnswer::verify", nontrivial=False)
    C.ob("R1", "validate-call", len(val) == 1, b.loc(), "exactly one Peer::validate", nontrivial=False)
    if len(ver) != 1 or len(val) != 1:
        return
    v_ok = ok_edge_block(b, ver[0][0])
    p_ok = ok_edge_block(b, val[0][0])
    C.ob("R1", "verify-propagates", v_ok is not None, b.loc(ver[0][0]), "a failed proof verification returns the error (`?`)")
    C.ob("R1", "validate-propagates", p_ok is not None, b.loc(val[0][0]), "an invalid peer row returns the error (`?`)")
    if v_ok is None or p_ok is None:
        return
    # challenge provenance
    va = b.call_args(ver[0][0], expand_vars=True)
    ch = va[1]
    fresh = mir.has_call(ch, r"security::random32$") is not None
    C.ob("R4", "challenge-fresh", fresh, b.loc(ver[0][0]), "the verified challenge is random32() drawn in this connection's initialisation: %s" % term_str(ch)[:80])
    sent = False
    for bi, t in b.calls_to(r"LocalPeerService::query$"):
        a = b.call_args(bi, expand_vars=True)
        for s in mir.subterms(a[1]):
            if s[0] == "aggr" and s[3] == "ProveIdentity":
                sent = mir.has_call(s[4][0], r"security::random32$") is not None
                # same variable
                ua = b.call_args(bi)
                uv = b.call_args(ver[0][0])
                chal = b.find_locals(call=r"security::random32$")
                v1 = [x for x in mir.subterms(ua[1]) if x[0] == "var" and x[1] in chal]
                v2 = [x for x in mir.subterms(uv[1]) if x[0] == "var" and x[1] in chal]
                sent = sent and len(chal) == 1 and bool(v1) and bool(v2) and v1[0][2] == v2[0][2]
    C.ob("R4", "challenge-sent-is-verified", sent, b.loc(), "Query::ProveIdentity carries a clone of the same `challenge` variable that is verified")
    C.ob("R4", "answer-is-query-result", mir.has_call(va[0], r"LocalPeerService::query$") is not None, b.loc(ver[0][0]), "the verified answer is the reply to that query")
    try:
        iv = P.body("synchronisation::IdentityAnswer::verify")
        C.saw(iv)
        vs = iv.calls_to(r"VerifyingKey::verify$|VerifyingKey>::verify$")
        ok = len(vs) == 1
        if ok:
            a = iv.call_args(vs[0][0], expand_vars=True)
            k = mir.has_call(a[0], r"security::import_verifying_key$")
            chp = iv.find_locals(ty=r"(Vec<u8>|\[u8\])$", param=True)
            ok = k is not None and field_path(k[2][0]).endswith("self.peer.verifying_key") and len(chp) == 1 and field_path(a[1]) == chp[0] and field_path(a[2]).endswith("self.chall_signature")
            re_ = mir.result_edges(iv, vs[0][0])
            ok = ok and re_ is not None and re_["via"] == "?"
        C.ob("R4", "answer-verified-under-presented-key", ok, iv.loc(), "verify(challenge, chall_signature) under import_verifying_key(self.peer.verifying_key), error propagated")
    except mir.MissingAnchor as e:
        C.anchor_missing("R4", "IdentityAnswer::verify", e)
    # ---- trust effects
    effects = []
    for bi, t in b.live_calls():
        name = callee_name(t)
        if name.endswith("DerefMut>::deref_mut") or name.endswith("::deref_mut"):
            a = b.call_args(bi, expand_vars=True)
            if is_remote_key(b, a[0]):
                effects.append(("store-remote-key", bi))
        elif name.endswith("PeerConnectionService::invite_accepted"):
            effects.append(("invite_accepted", bi))
        elif name.endswith("PeerConnectionService::connected"):
            effects.append(("connected", bi))
        elif name.endswith("LocalPeerService::send_event"):
            effects.append(("event", bi))
        elif name.endswith("Atomic::store") or name.endswith("AtomicBool::store"):
            effects.append(("conn_ready", bi))
    counts = {}
    for kind, bi in effects:
        n = counts.get(kind, 0)
        counts[kind] = n + 1
        arm = token_arm(b, bi) or "-"
        dom = b.dominates(v_ok, bi) and b.dominates(p_ok, bi)
        C.ob("R1", "%s:%s#%d" % (kind, arm, n), dom, b.loc(bi), "dominated by the success edges of proof.verify(&challenge)? and Peer::validate(&proof.peer)?")
    C.floor("R1", "stores of the remote key", counts.get("store-remote-key", 0), 3)
    C.floor("R1", "invite_accepted calls", counts.get("invite_accepted", 0), 2)
    C.floor("R1", "connected calls", counts.get("connected", 0), 1)
    C.floor("R1", "events", counts.get("event", 0), 2)
    # the stored key is the proven one
    for bi in b.live_blocks():
        for si, st in enumerate(b.blocks[bi]["s"]):
            if st["lhs"][-1:] == ["*"] and len(st["lhs"]) == 2:
                t = b.def_term(bi, si, st["rv"], 0)
                d = b.local_term(st["lhs"][0], expand_vars=True)
                if mir.has_call(d, r"deref_mut$") and is_remote_key(b, d):
                    C.ob("R1", "stored-key-is-proven-key:" + (token_arm(b, bi) or "-"), b.cpath(t) == PROVEN, "%s:%d" % (b.file, st["at"][0]), "remote key := %s" % b.cpath(t))
    # ---- R2
    for kind, bi in effects:
        if kind != "store-remote-key":
            continue
        arm = token_arm(b, bi)
        g = b.guards(bi, expand_vars=False)
        if arm == "AllowedPeer":
            okeq = False
            sw = None
            for s, vals, term in g:
                atom, truth = mir.cond_atoms(term, vals)
                if atom[0] == "call" and atom[1].endswith("::eq") and truth is True:
                    ps = [b.cpath(x) for x in atom[2]]
                    if any(p == PROVEN for p in ps):
                        other = [x for x in atom[2] if b.cpath(x) != PROVEN]
                        if other:
                            d = def1(b, other[0])
                            dec = mir.has_call(d, r"security::base64_decode$")
                            if dec is not None and b.cpath(dec[2][0]) == "‹AllowedPeer›.peer.verifying_key":
                                okeq = True
                                sw = s
            refuse = False
            if sw is not None:
                ra = mir.return_assignments(b)
                for tg, vals in rights.switch_edges(b, sw):
                    if mir.cond_atoms(b.switch_term(sw), vals)[1] is False:
                        region = b.reachable(tg)
                        refuse = not (region & set(ra["Ok"])) and bool(region & set(ra["Err"]))
            C.ob("R2", "AllowedPeer:expected-key", okeq and refuse, b.loc(bi), "store under expected_key(token) == proof.peer.verifying_key: %s; mismatch returns Err: %s" % (okeq, refuse))
        elif arm == "Invite":
            vs = [(vb, vt) for vb, vt in b.calls_to(r"VerifyingKey::verify$|VerifyingKey>::verify$") if token_arm(b, vb) == "Invite"]
            ok = len(vs) == 1
            if ok:
                vb = vs[0][0]
                a = b.call_args(vb)
                k = mir.has_call(def1(b, a[0]), r"security::import_verifying_key$")
                okk = k is not None and b.cpath(k[2][0]) == PROVEN
                okh = mir.has_call(a[1], r"Invite::hash$") is not None and field_path(a[2]).endswith("invite_sign")
                vok = ok_edge_block(b, vb)
                ok = okk and okh and vok is not None and b.dominates(vok, bi)
            C.ob("R2", "Invite:signature", ok, b.loc(bi), "the invitation hash is verified against invite_sign under the prover's key before the key is stored")
            for k2, b2 in effects:
                if k2 == "invite_accepted" and token_arm(b, b2) == "Invite" and vs:
                    vok = ok_edge_block(b, vs[0][0])
                    C.ob("R2", "Invite:accept-after-signature", vok is not None and b.dominates(vok, b2), b.loc(b2), "invite_accepted only after the invitation signature verified")
        elif arm == "OwnedInvite":
            C.ob("R2", "OwnedInvite:store", True, b.loc(bi), "own invitation: possession of the invitation token selects this arm (no key is expected in advance)", nontrivial=False)
        else:
            C.ob("R2", "store-outside-token-arm", False, b.loc(bi), "store of the remote key outside a token-type arm")
    # every TokenType variant has an arm
    tt = P.adts.get("network::peer_manager::TokenType")
    if tt:
        from rules.c13 import arms_of
        arms = arms_of(b, "network::peer_manager::TokenType")
        for v in tt["variants"]:
            C.ob("R2", "token-arm:" + v["name"], v["name"] in arms, b.loc(), "TokenType::%s has its own arm" % v["name"], nontrivial=False)
    # ---- R3
    try:
        st = [x for x in P.bodies.values() if x.id.startswith("synchronisation::peer_inbound_service::LocalPeerService::start::") and x.calls_to(r"LocalPeerService::initialise_connection$")]
        if len(st) != 1:
            raise mir.MissingAnchor("start closure calling initialise_connection: %d" % len(st))
        s = st[0]
        C.saw(s)
        ic = s.calls_to(r"LocalPeerService::initialise_connection$")[0][0]
        loop_calls = [bi for bi, t in s.calls_to(r"LocalPeerService::(process_remote_event|process_local_event|process_acquired_room)$")]
        disc = [bi for bi, t in s.calls_to(r"PeerConnectionService::disconnect$")]
        # success edge: discr(result)==Ok and success==true
        good = []
        for lb in loop_calls:
            g = s.guards(lb, expand_vars=True)
            okv = any((mir.discr_variants(term, vals) or (None, []))[1] == ["Ok"] and any(x[0] == "call" and x[3] == ic for x in mir.subterms(term)) for sg, vals, term in g)
            succ = False
            for sg, vals, term in g:
                atom, truth = mir.cond_atoms(term, vals)
                if term[0] != "discr" and any(x[0] == "call" and x[3] == ic for x in mir.subterms(term)) and truth is True:
                    succ = True
            good.append(okv and succ)
        C.ob("R3", "loop-only-after-success", bool(good) and all(good), s.loc(ic), "the event loop handlers are reachable only under Ok(true) of initialise_connection (%d handlers)" % len(good))
        # failing edges: reach disconnect, then return, never the loop
        fails = []
        for sb in sorted(s.live_blocks()):
            t = s.blocks[sb]["t"]
            if t["k"] != "switch":
                continue
            term = s.switch_term(sb, expand_vars=True)
            if not any(x[0] == "call" and x[3] == ic for x in mir.subterms(term)):
                continue
            if term[0] == "discr" and "Poll" not in term[2]:
                table = dict(term[3])
                for v, tg in t["targets"]:
                    if table.get(v) == "Err":
                        fails.append(("Err", tg))
            elif term[0] != "discr":
                for tg, vals in rights.switch_edges(s, sb):
                    if mir.cond_atoms(term, vals)[1] is False:
                        fails.append(("Ok(false)", tg))
        for name, tg in fails:
            region = s.reachable(tg)
            ok = not (region & set(loop_calls)) and s.must_pass(tg, disc, s.exits(), after=False)
            C.ob("R3", "failure:" + name, ok, s.loc(tg), "this outcome disconnects on every path and never enters the event loop")
        C.floor("R3", "failing outcomes", len(fails), 2)
    except mir.MissingAnchor as e:
        C.anchor_missing("R3", "LocalPeerService::start", e)
    # ---- R5
    try:
        ia = P.body("PeerManager::invite_accepted::{closure#0}")
        C.saw(ia)
        effects = [bi for bi, t in ia.calls_to(r"(GraphDatabaseService::add_peer_nodes|AllowedPeer::add|GraphDatabaseService::mutate)$")]
        deletes = {"OwnedInvite": ia.calls_to(r"OwnedInvite::delete$"), "Invite": ia.calls_to(r"system_entities::Invite::delete$")}
        removes = ia.calls_to(r"Vec::remove$")
        for k, d in deletes.items():
            C.ob("R5", "deleted:" + k, len(d) == 1 and mir.result_edges(ia, d[0][0]) is not None, ia.loc(d[0][0]) if d else ia.loc(), "the consumed invitation is deleted from storage and a failure is propagated")
        C.ob("R5", "token-removed", len(removes) >= 2, ia.loc(), "the invitation's meeting token entry is removed (%d sites)" % len(removes))
        # the entry is removed under the key it was inserted with: invitations are announced under derive_token(<context>, <invitation id>)
        # (PeerManager::new / add_owned_invite / add_invite); a removal that looks under another key (e.g. the meeting token of the
        # new peer) never finds the entry and the invitation stays usable until restart
        for n_, (rb, rt) in enumerate(sorted(removes)):
            recv = ia.call_args(rb, expand_vars=True)[0]
            gm = mir.has_call(recv, r"HashMap::get_mut$")
            keyt = strip_refs(gm[2][1]) if gm is not None and len(gm[2]) > 1 else None
            if keyt is not None and keyt[0] == "var" and len(keyt) > 2:
                kd = ia.var_defs(keyt)
                keyt = strip_refs(kd[0]) if len(kd) == 1 else keyt
            dt = mir.has_call(keyt, r"MeetingSecret::derive_token$") if keyt is not None else None
            arm = None
            for s_, vals, term in ia.guards(rb, expand_vars=True):
                dv = mir.discr_variants(term, vals)
                if dv and term[2].endswith("TokenType") and len(dv[1]) == 1:
                    arm = dv[1][0]
            ok = False
            detail = "key = %s" % (term_str(keyt)[:70] if keyt is not None else "?")
            if dt is not None and len(dt[2]) == 2:
                idp = full_path(ia, strip_refs(dt[2][1]))
                want = {"OwnedInvite": r"@OwnedInvite\.0\.id$|\.id$", "Invite": r"\.invite_id$"}.get(arm, r"$^")
                ok = re.search(want, idp) is not None and "allowed_token" in term_str(gm[2][0])
                detail = "key = derive_token(.., %s) in the %s arm" % (idp, arm)
            C.ob("R5", "token-removed-under-its-own-key:%s" % (arm or "?"), ok, ia.loc(rb),
                 detail + ("" if ok else " -- the invitation was inserted under derive_token(context, invitation id): this lookup never finds it, the consumed invitation stays in allowed_token and a second peer presenting its token is accepted in the same session"))
        # a consumed invitation is deleted whatever happens next: from the entry of its arm every path to a return (Ok or Err) passes its
        # deletion, except through the deletion's own failure -- a fallible step placed before it (e.g. the default room grant) leaves the
        # invitation valid after the guest was already stored as an allowed peer
        for k, d in deletes.items():
            if len(d) != 1:
                continue
            db_ = d[0][0]
            arm_entry = None
            for sb in ia.dom_chain(db_):
                tt = ia.blocks[sb]["t"]
                if tt["k"] != "switch":
                    continue
                term = ia.switch_term(sb, expand_vars=True)
                if term[0] == "discr" and term[2].endswith("TokenType"):
                    table = dict(term[3])
                    for v, tg in tt["targets"]:
                        if table.get(v) == k and (ia.dominates(tg, db_) or tg == db_):
                            arm_entry = tg
            if arm_entry is None:
                C.ob("R5", "deleted-on-every-path:" + k, False, ia.loc(db_), "arm entry of TokenType::%s not found" % k)
                continue
            r_ = ia.reachable(arm_entry, avoid_blocks={db_})
            leaks = sorted(x for x in ia.exits() if x in r_)
            C.ob("R5", "deleted-on-every-path:" + k, not leaks, ia.loc(db_),
                 "every return reachable from the entry of the %s arm passes the deletion of the invitation: %s" % (k, not leaks))
        present = False
        for e in effects:
            for s, vals, term in ia.guards(e, expand_vars=True):
                dv = mir.discr_variants(term, vals)
                atom, truth = mir.cond_atoms(term, vals)
                if dv and dv[1] == ["Some"] and mir.has_call(dv[0], r"::position$|HashMap::get$|::contains") and ("allowed_token" in term_str(dv[0]) or "invites" in term_str(dv[0])):
                    present = True
                if atom[0] == "call" and re.search(r"contains", atom[1]) and truth is True:
                    present = True
        C.ob("R5", "invite-double-accept", present, ia.loc(effects[0]) if effects else ia.loc(),
             "the effects of an acceptance (peer row, allowed peer, room membership) are control-dependent on the invitation still being present: two connections that "
             "fetched the same TokenType before the first acceptance both pass")
    except mir.MissingAnchor as e:
        C.anchor_missing("R5", "invite_accepted", e)
