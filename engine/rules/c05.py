"""C05 — query results equal a direct evaluation (necessary structural clauses only)."""
import re
import mir
import sql
from mir import term_str, strip_refs, callee_name, field_path, full_path, short
from rules import rights


def pushes(b):
    """[(block, text-with-{} of the piece pushed to a String)]"""
    out = []
    for bi, t in b.live_calls():
        n = callee_name(t)
        if n.endswith("String::push_str"):
            a = strip_refs(b.call_args(bi, expand_vars=True)[1])
            # a pushed value may be one of several texts (the result of a helper analysed inlined: `query.push_str(&offset)`)
            while a[0] == "call" and a[2] and re.search(r"::(deref|as_str|as_ref|borrow)$", a[1]):
                a = strip_refs(a[2][0])
            alts = a[1] if a[0] == "phi" else [a]
            for alt in alts:
                alt = strip_refs(alt)
                # one of several texts: the piece belongs to the block that built it (its guards decide when it is emitted)
                at = alt[3] if len(alts) > 1 and alt[0] == "call" and len(alt) > 3 and isinstance(alt[3], int) else bi
                if alt[0] == "const" and isinstance(alt[1], str):
                    out.append((at, alt[1]))
                else:
                    parts = sql.format_parts(alt)
                    if parts:
                        out.append((at, "".join(x[1] if x[0] == "lit" else "{}" for x in parts)))
    return out


def run(P, C, tier):
    C.explanation = (
        "Equality of query results with a reference evaluation lies in values computed by SQLite over generated models, data "
        "and queries: it is NOT decided (a reference evaluator is another technique family). Decided are necessary structural "
        "clauses of the compiler that the statement of C05 depends on: (1) paging with before/after can visit every row exactly "
        "once only if the ordering is total, i.e. ends with a unique key; (2) skip/first are emitted as a well-formed LIMIT/OFFSET "
        "pair on every path; (3) a selected field that has a default value is wrapped in Ifnull(value, default) in every selection "
        "arm; (4) every order_by key is emitted with its own direction. Each clause is a property of the shape of the compiler.")
    C.rule("R1", "a paged query (before/after) is totally ordered: the parser requires, or the compiler appends, a unique last key")
    C.rule("R2", "OFFSET is never emitted without a LIMIT before it on the same path (SQLite rejects a bare OFFSET)")
    C.rule("R3", "in get_fields every arm that selects a scalar/json field with a default value emits Ifnull(<field>, <default>)")
    C.rule("R4", "get_order emits each order_by key with the direction parsed for it")
    # ---- R1
    total = False
    try:
        fin = P.body("query_parser::EntityQuery::finalize")
        C.saw(fin)
        for bi, t in fin.live_calls():
            txt = term_str(fin.def_term(bi, None, t, 0))
            if re.search(r"ID_FIELD|rowid", txt) and re.search(r"order_by", txt) and re.search(r"push|last|insert", txt):
                total = True
        gp = P.body("query::get_paging")
        go = P.body("query::get_order")
        C.saw(gp), C.saw(go)
        for b in (gp, go):
            for bi, piece in pushes(b):
                if re.search(r"\b(rowid|\.id)\b", piece):
                    total = True
        C.ob("R1", "paging-tie-break", total, gp.loc(),
             "before/after compare the order_by keys with strict < / >; neither EntityQuery::finalize requires a unique last key nor get_order/get_paging append id or rowid: "
             "rows that tie with the cursor on every order_by key are never visited (e.g. three rows with the same name, order_by(name asc), first 2, then after(\"a\") returns nothing)")
    except mir.MissingAnchor as e:
        C.anchor_missing("R1", "paging", e)
    # ---- R2
    try:
        gl = P.body("query::get_limit")
        C.saw(gl)
        ps = pushes(gl)
        limits = [bi for bi, p in ps if re.search(r"\bLIMIT\b", p)]
        offsets = [bi for bi, p in ps if re.search(r"\bOFFSET\b", p)]
        C.floor("R2", "LIMIT pieces", len(limits), 2)
        C.floor("R2", "OFFSET pieces", len(offsets), 2)
        def reach_without_limit(target):
            """is `target` reachable from the entry without passing a LIMIT piece, when the tests of one and the same
            Option place (`x.is_some()`, `if let Some(..) = &x`) are answered consistently along the path"""
            succ = gl.succs()
            seen = set()
            work = [(0, frozenset())]
            while work:
                x, know = work.pop()
                if (x, know) in seen or x in limits:
                    continue
                seen.add((x, know))
                if x == target:
                    return True
                tt = gl.blocks[x]["t"]
                if tt["k"] == "switch" and len(succ[x]) > 1:
                    term = gl.switch_term(x, expand_vars=False)
                    place = None
                    edges = []
                    if term[0] == "discr":
                        place = field_path(term[1])
                        table = dict(term[3])
                        seen_names = {table.get(v) for tg, vals in rights.switch_edges(gl, x) for v in vals if v != "otherwise"}
                        for tg, vals in rights.switch_edges(gl, x):
                            names = {table.get(v, "otherwise") if v != "otherwise" else "otherwise" for v in vals}
                            some = True if names == {"Some"} else False if names == {"None"} else None
                            if some is None and (gl.blocks[tg]["t"]["k"] == "unreachable" or (names == {"otherwise"} and set(table.values()) <= seen_names)):
                                continue  # the `otherwise` edge of a match that names every variant
                            edges.append((tg, some))
                        if not all(e[1] is not None for e in edges) and len(edges) == 2 and any(e[1] is not None for e in edges):
                            known = [e for e in edges if e[1] is not None][0][1]
                            edges = [(tg, sm if sm is not None else (not known)) for tg, sm in edges]
                    else:
                        atom, _ = mir.cond_atoms(term, [0])
                        if atom[0] == "call" and atom[2] and re.search(r"Option.*::(is_some|is_none)$", atom[1]):
                            place = field_path(atom[2][0])
                            for tg, vals in rights.switch_edges(gl, x):
                                tr = mir.cond_atoms(term, vals)[1]
                                some = tr if atom[1].endswith("is_some") else (None if tr is None else not tr)
                                edges.append((tg, some))
                    if place and edges and all(e[1] is not None for e in edges):
                        kd = dict(know)
                        for tg, some in edges:
                            if place in kd and kd[place] != some:
                                continue
                            work.append((tg, frozenset(list(know) + [(place, some)])))
                        continue
                for sx in succ[x]:
                    work.append((sx, know))
            return False

        for i, ob in enumerate(offsets):
            ok = not reach_without_limit(ob)
            C.ob("R2", "offset-after-limit#%d" % i, ok, gl.loc(ob), "every path that emits OFFSET has emitted a LIMIT before: %s%s" % (ok, "" if ok else " -- `skip` without `first` (first defaults to 0 = no LIMIT) compiles to `… OFFSET n`, which SQLite rejects"))
    except mir.MissingAnchor as e:
        C.anchor_missing("R2", "get_limit", e)
    # ---- R3
    try:
        gf = P.body("query::get_fields")
        C.saw(gf)
        n = 0
        for bi, piece in pushes(gf):
            g = gf.guards(bi, expand_vars=True)
            has_default = any((mir.discr_variants(term, vals) or (None, []))[1] == ["Some"] and field_path((mir.discr_variants(term, vals) or (("unknown",), []))[0]).endswith("default_value") for s, vals, term in g)
            arm = None
            for s, vals, term in g:
                dv = mir.discr_variants(term, vals)
                if dv and term[2].endswith("QueryFieldType") and len(dv[1]) == 1:
                    arm = dv[1][0]
            if arm in ("Scalar", "Json") and has_default:
                n += 1
                ok = re.search(r"Ifnull\(\{\},\s*\{\}\)", piece) is not None
                C.ob("R3", "default-applied:%s" % arm, ok, gf.loc(bi), "selection of a %s field with a default: `%s`" % (arm, piece.strip()[:50]))
        C.floor("R3", "selection arms with a default", n, 2)
    except mir.MissingAnchor as e:
        C.anchor_missing("R3", "get_fields", e)
    # ---- R4
    try:
        go = P.body("query::get_order")
        n = 0
        for bi, t in go.live_calls():
            if callee_name(t).endswith("fmt::format"):
                parts = sql.format_parts(go.def_term(bi, None, t, 0, expand_vars=True)) or []
                holes = [p for p in parts if p[0] == "hole"]
                if len(holes) == 2:
                    n += 1
                    d = holes[1][1]
                    ok = d[0] == "phi" and {term_str(x) for x in d[1]} <= {"from('asc')", "from('desc')"} or "asc" in term_str(d)
                    key = mir.full_path(go, holes[0][1])
                    C.ob("R4", "order-key#%d" % n, ok and re.search(r"\.order_by\.\[\]\.(name|field\.short_name)$", key) is not None, go.loc(bi), "`%s %s`" % (key, term_str(d)[:40]))
        C.floor("R4", "order key templates", n, 3)
        # direction derives from ord.direction
        dirs = [sb for sb in go.live_blocks() if go.blocks[sb]["t"]["k"] == "switch" and go.switch_term(sb)[0] == "discr" and mir.full_path(go, go.switch_term(sb)[1]).endswith(".order_by.[].direction")]
        C.ob("R4", "direction-from-key", len(dirs) == 1, go.loc(), "asc/desc chosen by a match on the direction of the same order_by element")
    except mir.MissingAnchor as e:
        C.anchor_missing("R4", "get_order", e)
    run_tables(P, C)
    r9_value_column(P, C)


# ---------------------------------------------------------------------------------------------------------------
# R5..R8: tables of the compiler that the statement of C05 names (paging, aggregates, filters, field accessors)

def _templates(b):
    """[(block, parts)] of every format! of a body (parts with holes expanded to their definitions)"""
    out = []
    for bi, t in b.live_calls():
        if callee_name(t).endswith("fmt::format"):
            parts = sql.format_parts(b.def_term(bi, None, t, 0, expand_vars=True))
            if parts:
                out.append((bi, parts))
    return out


def _lits(parts):
    return "".join(p[1] if p[0] == "lit" else "{}" for p in parts)


def _find_sub(t, pred):
    for s in mir.subterms(t):
        if pred(s):
            return s
    return None


def _index_call(t, coll_re):
    """the `index(&coll, i)` subterm of t whose collection matches coll_re -> (collection term, index term)"""
    s = _find_sub(t, lambda s: s[0] == "call" and s[1].endswith("::index") and len(s[2]) == 2 and re.search(coll_re, term_str(s[2][0])))
    return (s[2][0], strip_refs(s[2][1])) if s else None


def _scenario_eval(b, local, scen, depth=0):
    """value of a local in the scenario `scen` = truth of `Vec::is_empty(<params>.before)`: the definition whose guards are all
    consistent with the scenario and that has the most guards (the most specific = the latest assignment)"""
    best = None
    for (bi, si, rv, lhs) in b.defs().get(local, ()):
        if b.blocks[bi]["cl"] or len(lhs) != 1 or bi not in b.live_blocks():
            continue
        ok = True
        n = 0
        for atom, truth in b.guard_atoms(bi):
            a = strip_refs(atom)
            if a[0] == "call" and a[1].endswith("::is_empty") and term_str(a).endswith(".before)"):
                n += 1
                if truth is not None and truth != scen:
                    ok = False
            elif a[0] == "var" and len(a) > 2 and b.locals[a[2]] == "bool" and depth < 3 and a[2] != local:
                v = _scenario_eval(b, a[2], scen, depth + 1)
                if v is not None and v[0] == "const" and truth is not None:
                    n += 1
                    if v[1] != truth:
                        ok = False
        if ok and (best is None or n > best[0]):
            best = (n, strip_refs(b.def_term(bi, si, rv, 0)))
    if best is None:
        return None
    v = best[1]
    neg = False
    while v[0] == "un" and v[1] == "Not":
        v = strip_refs(v[2])
        neg = not neg
    if v[0] == "call" and v[1].endswith("::is_empty") and term_str(v).endswith(".before)"):
        return ("const", (not scen) if neg else scen)
    if v[0] == "const" and neg:
        return ("const", not v[1])
    return v


def _walk_operator(gp, direction, before_empty, targets, ope_local, limit=60000):
    """Follow the CFG of get_paging under the scenario (direction of the key, `params.before.is_empty()`), tracking constants,
    copies and tuples of constants along the path, and collect the value of the operator variable at the comparison templates.
    Every switch whose operand is known in the scenario is followed on that edge only; all others fork.  This decides the
    operator table whatever the idiom (flag variable, tuple binding, nested ifs, match on a tuple, or-patterns, helper)."""
    out = set()
    seen = set()
    work = [(0, ())]
    succ = gp.succs()
    # only the locals that can influence a branch or the operator are tracked (backward slice over copies, references, tuples,
    # discriminants and negations from every switch operand and from the operator variable)
    deps = {}
    for bl_ in gp.blocks:
        for s_ in bl_["s"]:
            if len(s_["lhs"]) < 1:
                continue
            rv_ = s_["rv"]
            srcs = []
            if rv_["r"] == "use":
                q_ = rv_["o"].get("c") or rv_["o"].get("m")
                if q_:
                    srcs.append(q_[0])
            elif rv_["r"] in ("ref", "discr") and rv_.get("p"):
                srcs.append(rv_["p"][0])
            elif rv_["r"] == "aggr":
                for o_ in rv_.get("ops", []):
                    q_ = o_.get("c") or o_.get("m")
                    if q_:
                        srcs.append(q_[0])
            elif rv_["r"] == "un":
                q_ = rv_["o"].get("c") or rv_["o"].get("m")
                if q_:
                    srcs.append(q_[0])
            deps.setdefault(s_["lhs"][0], set()).update(srcs)
    relevant = {ope_local}
    for bl_ in gp.blocks:
        if bl_["t"]["k"] == "switch":
            q_ = bl_["t"]["d"].get("c") or bl_["t"]["d"].get("m")
            if q_:
                relevant.add(q_[0])
    todo = list(relevant)
    while todo:
        l_ = todo.pop()
        for s2 in deps.get(l_, ()):
            if s2 not in relevant:
                relevant.add(s2)
                todo.append(s2)
    dir_cache = {}

    def value_of(st, place):
        """value of a place [local, proj...]: constant, ('t', comps) or None"""
        v = st.get(place[0])
        for pj in place[1:]:
            if v is None:
                return None
            if pj == "*":
                if isinstance(v, tuple) and v and v[0] == "ref":
                    v = st.get(v[1]) if len(v[2]) == 0 else value_of(st, [v[1]] + list(v[2]))
                continue
            if isinstance(pj, str) and pj.startswith(".") and pj[1:].isdigit() and isinstance(v, tuple) and v and v[0] == "t":
                i = int(pj[1:])
                v = v[1][i] if i < len(v[1]) else None
                continue
            return None
        return v

    def is_direction(place):
        k_ = tuple(place)
        if k_ not in dir_cache:
            t = gp.place_term(list(place), 0, True)
            while t[0] in ("ref", "deref"):
                t = t[1]
            dir_cache[k_] = t[0] == "field" and t[2] == "direction"
        return dir_cache[k_]

    while work and limit > 0:
        limit -= 1
        x, frozen = work.pop()
        if (x, frozen) in seen:
            continue
        seen.add((x, frozen))
        st = dict(frozen)
        bl = gp.blocks[x]
        if x in targets:
            v = st.get(ope_local)
            out.add(v if isinstance(v, int) and not isinstance(v, bool) else None)
        for s_ in bl["s"]:
            lhs = s_["lhs"]
            rv = s_["rv"]
            if len(lhs) != 1:
                st.pop(lhs[0], None)
                continue
            val = None
            r = rv["r"]
            if r == "use":
                o = rv["o"]
                if "k" in o:
                    val = o["k"].get("v")
                    if not isinstance(val, (bool, int)):
                        val = None
                else:
                    q = o.get("c") or o.get("m")
                    if q:
                        val = value_of(st, q)
            elif r == "ref" and rv.get("p"):
                val = ("ref", rv["p"][0], tuple(rv["p"][1:]))
            elif r == "aggr" and rv.get("kind") == "tuple":
                comps = []
                for o in rv.get("ops", []):
                    if "k" in o:
                        v_ = o["k"].get("v")
                        comps.append(v_ if isinstance(v_, (bool, int)) else None)
                    else:
                        q = o.get("c") or o.get("m")
                        comps.append(value_of(st, q) if q else None)
                val = ("t", tuple(comps))
            elif r == "discr" and rv.get("p"):
                pl = rv["p"]
                # resolve references held in the state (`match (&ord.direction, before)`)
                base = pl
                v0 = value_of(st, [pl[0]] + [x_ for x_ in pl[1:] if x_ != "*"]) if pl else None
                if isinstance(v0, tuple) and v0 and v0[0] == "ref":
                    base = [v0[1]] + list(v0[2])
                if is_direction(pl) or is_direction(base):
                    table = {name: idx for idx, name in rv.get("vars", [])}
                    if direction in table:
                        val = ("d", table[direction])
            elif r == "un" and rv.get("op") == "Not":
                q = rv["o"].get("c") or rv["o"].get("m")
                v_ = value_of(st, q) if q else None
                if isinstance(v_, bool):
                    val = not v_
            if val is None or lhs[0] not in relevant:
                st.pop(lhs[0], None)        # only flags, operators, discriminants, tuples and references are tracked (loop counters would blow the state up)
            else:
                st[lhs[0]] = val
        t = bl["t"]
        if t["k"] == "call":
            d = t["dest"]
            if d:
                st.pop(d[0], None)
            nm = callee_name(t)
            if nm.endswith("::is_empty") and t["args"] and len(d) == 1:
                k_ = ("empty", x)
                if k_ not in dir_cache:
                    at = gp.operand_term(t["args"][0], 0, True)
                    dir_cache[k_] = field_path(strip_refs(at)).endswith(".before")
                if dir_cache[k_] and d[0] in relevant:
                    st[d[0]] = before_empty
        frozen2 = tuple(sorted((k, v) for k, v in st.items() if not (isinstance(v, tuple) and v and v[0] == "ref" and False)))
        if t["k"] == "switch" and len(succ[x]) > 1:
            dpl = t["d"].get("c") or t["d"].get("m")
            v = value_of(st, dpl) if dpl else None
            want = None
            if isinstance(v, bool):
                want = 1 if v else 0
            elif isinstance(v, tuple) and v and v[0] == "d":
                want = v[1]
            elif isinstance(v, int):
                want = v
            if want is not None:
                tgt = None
                for tv, tg in t["targets"]:
                    if tv == want:
                        tgt = tg
                work.append((tgt if tgt is not None else t["otherwise"], frozen2))
                continue
        for sx in succ[x]:
            work.append((sx, frozen2))
    return out


WANT_OPE = {("Asc", "before"): "<", ("Asc", "after"): ">", ("Desc", "before"): ">", ("Desc", "after"): "<"}
AGG = {"Avg": r"\bavg\(\{\}\)", "Count": r"\bcount\((1|\*)\)", "Max": r"\bmax\(\{\}\)", "Min": r"\bmin\(\{\}\)", "Sum": r"\b(total|sum)\(\{\}\)"}


def run_tables(P, C):
    C.rule("R5", "get_paging: the comparison emitted for key i is `<` for (asc, before) and (desc, after), `>` for (asc, after) and (desc, before), decided by "
                 "the direction of that same key; key i is compared with cursor value i; the tie prefix compares keys j<i with value j by `=`")
    C.rule("R6", "get_fields: each aggregate function is compiled to the SQL aggregate of the same name over the field named in the query")
    C.rule("R7", "the three filter compilers agree: a comparison with the null literal is emitted as `is` for `=` and `is not` for `!=`")
    C.rule("R8", "a key selected by the query is addressed through the result column (value->>'$.<alias>'), a key that is not selected through the stored "
                 "document (_json->>'$.<short name>'), a system column by its name: every template of the compiler pairs accessor and name consistently")
    # ---- R5
    try:
        gp = P.body("query::get_paging")
        tpls = _templates(gp)
        main, prefix = [], []
        for bi, parts in tpls:
            holes = [p for p in parts if p[0] == "hole"]
            if len(holes) == 3:
                main.append((bi, parts, holes))
            elif len(holes) == 2 and re.search(r"\s=\s", _lits(parts)):
                prefix.append((bi, parts, holes))
        C.floor("R5", "comparison templates", len(main), 3)
        C.floor("R5", "tie-prefix templates", len(prefix), 3)
        # which cursor list is used, as a function of a boolean: the code either keeps a flag next to the list
        # (`let mut before = true; let paging = if .. {&p.before} else {before = false; &p.after}`) or binds both at once
        # (`let (before, paging) = if .. {(true, &p.before)} else {(false, &p.after)}`), possibly passing the flag to a helper
        chars = [l for l, name, ty, leaf in gp.named_locals() if ty == "char"]
        table = {}
        bad = []
        pl = [l for l, name, ty, leaf in gp.named_locals() if re.search(r"Vec<.*FieldValue>", ty) and ty.startswith("&")]
        if len(pl) != 1:
            raise mir.MissingAnchor("get_paging: the cursor list variable (a &Vec<FieldValue>) is not unique: %s" % pl)

        def list_name(t):
            fp = field_path(strip_refs(t)) if t is not None else ""
            return "before" if fp.endswith(".before") else "after" if fp.endswith(".after") else None

        def tuple_alts(local):
            """the local is field k of a phi of tuple literals: -> (k, [tuple operands...]) else None"""
            ds = [strip_refs(gp.def_term(bi, si, rv, 0, expand_vars=True)) for (bi, si, rv, lhs) in gp.defs().get(local, ()) if len(lhs) == 1 and not gp.blocks[bi]["cl"]]
            if len(ds) != 1:
                return None
            d = ds[0]
            if d[0] == "field" and d[2].isdigit():
                base = strip_refs(d[1])
                alts = base[1] if base[0] == "phi" else [base]
                alts = [strip_refs(a) for a in alts]
                if alts and all(a[0] == "aggr" and a[1] == "tuple" for a in alts):
                    return int(d[2]), [a[4] for a in alts]
            return None

        def root_flag(a):
            """follow single-definition copies of a boolean (parameters of inlined helpers) to the variable that is decided"""
            seen = set()
            while a[0] == "var" and len(a) > 2 and a[2] not in seen:
                seen.add(a[2])
                ds = gp.var_defs(a)
                if len(ds) == 1 and strip_refs(ds[0])[0] == "var" and len(strip_refs(ds[0])) > 2 and gp.locals[strip_refs(ds[0])[2]] == "bool":
                    a = strip_refs(ds[0])
                else:
                    break
            return a

        flag_map = {}     # flag local -> {True: list name, False: list name}
        lists = {}
        ta = tuple_alts(pl[0])
        if ta is not None:
            # tuple idiom: the list is component k of each alternative; a flag is another component of the same alternatives
            k_list, alts = ta
            for l, name, ty, leaf in gp.named_locals():
                if ty != "bool":
                    continue
                tf = tuple_alts(l)
                if tf is not None and len(tf[1]) == len(alts) and [term_str(x[k_list]) for x in tf[1]] == [term_str(x[k_list]) for x in alts]:
                    m = {}
                    for ops in alts:
                        fv = strip_refs(ops[tf[0]])
                        if fv[0] == "const" and fv[1] in (True, False):
                            m[fv[1]] = list_name(ops[k_list])
                    if len(m) == 2:
                        flag_map[l] = m
            names = sorted(filter(None, (list_name(ops[k_list]) for ops in alts)))
            C.ob("R5", "cursor-list", names == ["after", "before"], gp.loc(), "the cursor values are one of the two lists of the parameters: %s" % names)
        else:
            for scen in (True, False):
                v = _scenario_eval(gp, pl[0], scen)
                lists[scen] = list_name(v)
            C.ob("R5", "cursor-list", lists.get(False) == "before" and lists.get(True) == "after", gp.loc(),
                 "the cursor values are `before` when it is not empty, otherwise `after`: before-empty=%s before-non-empty=%s" % (lists.get(True), lists.get(False)))

        def which_list(a, truth):
            a = root_flag(a)
            if a[0] == "var" and len(a) > 2 and gp.locals[a[2]] == "bool":
                if a[2] in flag_map:
                    return flag_map[a[2]].get(truth)
                sc = [scen for scen in (True, False) if (_scenario_eval(gp, a[2], scen) or ("?",))[:2] == ("const", truth)]
                if len(sc) == 1:
                    return lists.get(sc[0])
            return None

        # the operator table, decided by following the CFG under each of the four scenarios
        ope_locals = set()
        for bi, parts, holes in main:
            o_ = strip_refs(holes[1][1])
            raw = gp.call_args(bi)[0] if False else None
        for l in chars:
            ope_locals.add(l)
        tmpl_blocks = {bi for bi, parts, holes in main}
        # observe at the first call of each comparison template's region: the Argument::new_display of the operator
        obs = set()
        for bi_, t_ in gp.live_calls(awaits=True) if False else gp.calls():
            pass
        for bi_, t_ in gp.calls():
            if bi_ in gp.live_blocks() and callee_name(t_).endswith("Argument::new_display") and t_["args"]:
                a_ = gp.operand_term(t_["args"][0], 0, False)
                u_ = strip_refs(a_)
                for _ in range(4):
                    while u_[0] in ("ref", "deref"):
                        u_ = strip_refs(u_[1])
                    # the `args` tuple of format_args!: component k of a tuple literal of references
                    if u_[0] == "field" and u_[2].isdigit() and strip_refs(u_[1])[0] == "var":
                        ds_ = [strip_refs(x) for x in gp.var_defs(strip_refs(u_[1]))]
                        if len(ds_) == 1 and ds_[0][0] == "aggr" and ds_[0][1] == "tuple" and int(u_[2]) < len(ds_[0][4]):
                            u_ = strip_refs(ds_[0][4][int(u_[2])])
                            continue
                    break
                if u_[0] == "var" and len(u_) > 2 and u_[2] in ope_locals:
                    obs.add((bi_, u_[2]))
        key_idx = set()
        if len({l for _, l in obs}) == 1 and obs:
            ope_l = list(obs)[0][1]
            for dname in ("Asc", "Desc"):
                for bempty in (True, False):
                    which = (lists.get(bempty) if lists else None)
                    if ta is not None:
                        which = "after" if bempty else "before"
                    vals = _walk_operator(gp, dname, bempty, {b_ for b_, _ in obs}, ope_l)
                    if None in vals or not vals:
                        bad.append("operator not decided on some path for (%s, before list %s): %s" % (dname, "empty" if bempty else "not empty", sorted(str(v_) for v_ in vals)))
                        continue
                    table.setdefault((dname, which), set()).update(chr(v_) for v_ in vals)
        else:
            bad.append("the operator written into the comparison templates is not one char variable: %s" % sorted(obs))
        # the direction that decides is the one of the key that is compared: every match on a Direction reads order_by[<outer index>]
        for sb in sorted(gp.live_blocks()):
            tt_ = gp.blocks[sb]["t"]
            if tt_["k"] != "switch":
                continue
            full = gp.switch_term(sb, expand_vars=True)
            if full[0] == "discr" and full[2].endswith("Direction"):
                ic = _index_call(full[1], r"order_by")
                table.setdefault("idx", set()).add(term_str(ic[1]) if ic else "?")
        for k, want in sorted(WANT_OPE.items()):
            got = table.get(k)
            C.ob("R5", "operator:%s-%s" % k, got == {want}, gp.loc(), "%s key, %s cursor: operator %s (needed: %s)" % (k[0], k[1], sorted(got) if got else None, want))
        C.ob("R5", "operator-decided", not bad, gp.loc(), "; ".join(bad) or "every operator constant is assigned under a match on the key's direction and the before/after choice")
        for n, (bi, parts, holes) in enumerate(main):
            ki = _index_call(holes[0][1], r"order_by")
            vi = _index_call(holes[2][1], r"before|after|paging")
            ope = strip_refs(holes[1][1])
            ope_ok = (ope[0] == "phi" and {strip_refs(x)[1] for x in ope[1] if strip_refs(x)[0] == "const"} == {60, 62}) or (ope[0] == "var" and gp.locals[ope[2]] == "char")
            di = table.get("idx", set())
            ok = ki is not None and vi is not None and ki[1] == vi[1] and ope_ok and di == {term_str(ki[1])}
            C.ob("R5", "comparison#%d" % n, ok, gp.loc(bi), "`%s`: key index %s, cursor index %s, direction read at index %s" % (_lits(parts).strip(), term_str(ki[1]) if ki else None, term_str(vi[1]) if vi else None, sorted(di)))
        for n, (bi, parts, holes) in enumerate(prefix):
            ki = _index_call(holes[0][1], r"order_by")
            ok = False
            detail = "key index not found"
            if ki and ki[1][0] == "var":
                ds = gp.var_defs(ki[1])
                # j = item.0 of an enumerate over the cursor list; the value = item.1 of the same `next`
                jd = ds[0] if len(ds) == 1 else None
                vt = holes[1][1]
                nxt = _find_sub(jd, lambda s: s[0] == "call" and s[1].endswith("::next")) if jd else None
                def from_same_next(s):
                    if s[0] == "call" and s[1].endswith("::next") and s[3] == nxt[3]:
                        return True
                    if s[0] == "var" and len(s) > 2 and "FieldValue" in gp.locals[s[2]]:
                        dd = gp.var_defs(s)
                        return len(dd) == 1 and term_str(dd[0]).endswith("@Some.0.1") and _find_sub(dd[0], lambda c: c[0] == "call" and c[1].endswith("::next") and c[3] == nxt[3]) is not None
                    return False
                same = nxt is not None and _find_sub(vt, from_same_next) is not None
                enum = nxt is not None and "Enumerate" in (nxt[4] or "") and "FieldValue" in (nxt[4] or "")
                ok = bool(jd) and term_str(jd).endswith("@Some.0.0") and same and enum
                detail = "key index %s = %s; value from the same iteration: %s; iteration enumerates the cursor values: %s" % (term_str(ki[1]), term_str(jd) if jd else None, same, enum)
            C.ob("R5", "tie-prefix#%d" % n, ok, gp.loc(bi), "`%s`: %s" % (_lits(parts).strip(), detail))
    except mir.MissingAnchor as e:
        C.anchor_missing("R5", "get_paging", e)
    # ---- R6
    try:
        gf = P.body("query::get_fields")
        seen = {}
        for bi, parts in _templates(gf):
            fn = None
            for s, vals, term in gf.guards(bi, expand_vars=True):
                dv = mir.discr_variants(term, vals)
                if dv and term[2].endswith("Function") and len(dv[1]) == 1:
                    fn = dv[1][0]
            if fn is None:
                continue
            txt = _lits(parts)
            if "(" not in txt:
                continue
            seen.setdefault(fn, []).append((bi, txt, parts))
        C.floor("R6", "aggregate functions compiled", len(seen), 5)
        for fn, sites in sorted(seen.items()):
            for bi, txt, parts in sites:
                want = AGG.get(fn)
                ok = want is not None and re.search(want, txt) is not None and len(re.findall(r"\b(avg|count|max|min|total|sum)\(", txt)) == 1
                detail = "`%s`" % txt.strip()
                if ok and fn != "Count":
                    holes = [p for p in parts if p[0] == "hole"]
                    arg = holes[-1][1]
                    # the aggregated expression: js_field(<payload of the variant>) or the system field's name
                    srcs = [term_str(x) for x in (arg[1] if arg[0] == "phi" else [arg])]
                    okf = all((("js_field(" in s or "_json->" in s) and "@%s.0" % fn in s) or s.endswith("field.name)") or "field.name" in s for s in srcs)
                    ok = ok and okf
                    detail += " over %s" % srcs
                C.ob("R6", "aggregate:%s" % fn, ok, gf.loc(bi), detail)
    except mir.MissingAnchor as e:
        C.anchor_missing("R6", "get_fields", e)
    # ---- R7
    try:
        n = 0
        for fname in ("query::get_where_filters", "query::get_having_filters"):
            b = P.body(fname)
            C.saw(b)
            # assignments of the constants 'is' / 'is not' to a String variable, with the string comparison that guards them
            for l, name, ty, leaf in b.named_locals():
                if ty != "std::string::String":
                    continue
                for (bi, si, rv, lhs) in b.defs().get(l, ()):
                    if b.blocks[bi]["cl"] or bi not in b.live_blocks():
                        continue
                    v = term_str(b.def_term(bi, si, rv, 0))
                    m = re.search(r"from\('(is|is not)'\)$", v)
                    if not m:
                        continue
                    n += 1
                    g = b.guards(bi, expand_vars=True)
                    null_arm = any((mir.discr_variants(term, vals) or (None, []))[1] == ["Null"] for s, vals, term in g)
                    cmp_ = None
                    for s, vals, term in g:
                        atom, truth = mir.cond_atoms(term, vals)
                        ts = term_str(atom)
                        mm = re.search(r"'(=|!=)'", ts)
                        if mm and truth is True and re.search(r"\beq\(|==|Eq", ts) and "operation" in field_path(_find_sub(atom, lambda s: s[0] == "field") or ("unknown",)):
                            cmp_ = mm.group(1)
                    want = {"is": "=", "is not": "!="}[m.group(1)]
                    C.ob("R7", "null-operator:%s:%s#%d" % (short(fname), m.group(1).replace(" ", "-"), len([1 for o in C.obligations if o["key"].startswith("C05/R7/null-operator:%s:%s" % (short(fname), m.group(1).replace(" ", "-")))])),
                         null_arm and cmp_ == want, b.loc(bi), "`%s` assigned in the Null arm: %s, when the parsed operation is %r (needed %r)" % (m.group(1), null_arm, cmp_, want))
        C.floor("R7", "null operator rewrites", n, 6)
    except mir.MissingAnchor as e:
        C.anchor_missing("R7", "filters", e)
    # ---- R8
    try:
        n = 0
        for b in P.in_file("database/query.rs"):
            for bi, parts in _templates(b):
                for i, p in enumerate(parts[:-1]):
                    if p[0] != "lit" or parts[i + 1][0] != "hole":
                        continue
                    m = re.search(r"(value|_json)->>?'\$\.$", p[1])
                    if not m:
                        continue
                    h = parts[i + 1][1]
                    srcs = h[1] if h[0] == "phi" else [h]
                    paths = []
                    for s in srcs:
                        fp = full_path(b, s) if s[0] != "call" else term_str(s)
                        mcol = re.match(r"^(\w+)\.\[\]$", fp)
                        if mcol:
                            # items of a local list: what is pushed into it
                            pushed = [full_path(b, strip_refs(b.call_args(pb, expand_vars=True)[1])) for pb, pt in b.live_calls()
                                      if callee_name(pt).endswith("Vec::push") and field_path(strip_refs(b.call_args(pb)[0])) == mcol.group(1)]
                            paths += [re.sub(r"^clone\((.*)\)$", r"\1", x) for x in pushed] or [fp]
                        elif s[0] == "param" and len(s) > 2:
                            # builder parameter: what every caller passes at that position
                            for cb, cbi, ct in P.call_sites(re.escape(short(b.id)) + "$"):
                                if cb.blocks[cbi]["cl"] or cbi not in cb.live_blocks():
                                    continue
                                a = strip_refs(cb.call_args(cbi, expand_vars=True)[s[2] - 1])
                                while a[0] == "call" and a[2] and re.search(r"::deref$|::as_str$|::clone$", a[1]):
                                    a = strip_refs(a[2][0])
                                paths.append(full_path(cb, a))
                        else:
                            paths.append(fp)
                    n += 1
                    if m.group(1) == "value":
                        ok = all(re.search(r"\.name$|::name\(", x) for x in paths)
                    else:
                        ok = bool(paths) and all(re.search(r"short_name$|field_type(@Aggregate)?\.0(@\w+)?\.0$", x) for x in paths)
                    sel = None
                    for s, vals, term in b.guards(bi):
                        atom, truth = mir.cond_atoms(term, vals)
                        if field_path(atom).endswith(".is_selected") and truth is not None:
                            sel = truth
                    if sel is not None:
                        ok = ok and (sel == (m.group(1) == "value"))
                    C.ob("R8", "accessor:%s:%s#%d" % (short(b.id), m.group(1), len([1 for o in C.obligations if o["key"].startswith("C05/R8/accessor:%s:%s#" % (short(b.id), m.group(1)))])),
                         ok, b.loc(bi), "`%s{}`: name from %s, is_selected on this path: %s" % (p[1][-12:], paths, sel))
        C.floor("R8", "accessor templates", n, 19)
    except mir.MissingAnchor as e:
        C.anchor_missing("R8", "query.rs", e)


def r9_value_column(P, C):
    C.rule("R9", "filters, order keys and cursors on a selected field are compiled to `value->>'$.<alias>'`: in every SELECT whose tail is produced by "
                 "get_end_select_query the column `value` is the json_object of the SAME entity's selected fields (get_fields) on every path -- also inside "
                 "EXISTS sub-selects, where a cheaper `SELECT 1 as value` makes every alias predicate NULL and silently drops the parent row")
    n = 0
    for b, ebi, et in P.call_sites(r"query::get_end_select_query$"):
        if b.blocks[ebi]["cl"] or ebi not in b.live_blocks():
            continue
        ent = strip_refs(b.call_args(ebi, expand_vars=True)[0])
        # the `... as value` piece of this builder
        as_value = [bi for bi, piece in pushes(b) if re.match(r"^\s*as value\b", piece)]
        for av in as_value:
            n += 1
            # the push_str that precedes it on every path: the closest dominating push on the same string
            prev = None
            for d in b.dom_chain(av):
                if d == av:
                    continue
                t = b.blocks[d]["t"]
                if t["k"] == "call" and callee_name(t).endswith("String::push_str") and field_path(strip_refs(b.call_args(d)[0])) == field_path(strip_refs(b.call_args(av)[0])):
                    if prev is None or b.dominates(prev, d):
                        prev = d
            ok = False
            detail = "no selection pushed before ` as value`"
            if prev is not None:
                sel = strip_refs(b.call_args(prev, expand_vars=True)[1])
                while sel[0] in ("deref", "ref") or (sel[0] == "call" and sel[2] and re.search(r"::deref$|::as_str$", sel[1])):
                    sel = strip_refs(sel[2][0] if sel[0] == "call" else sel[1])
                ok = sel[0] == "call" and sel[1].endswith("query::get_fields") and strip_refs(sel[2][0]) == ent
                detail = "selection = %s; tail compiled for %s" % (term_str(sel)[:90], term_str(ent)[:40])
            C.ob("R9", "value-is-the-selected-object:%s#%d" % (short(b.id), len([1 for o in C.obligations if o["key"].startswith("C05/R9/value-is-the-selected-object:%s#" % short(b.id))])),
                 ok, b.loc(av), detail)
    C.floor("R9", "SELECT ... as value builders with a compiled tail", n, 3)
