"""C05 — query results equal a direct evaluation (necessary structural clauses only)."""
import re
import mir
import sql
from mir import term_str, strip_refs, callee_name, field_path, full_path
from rules import rights


def pushes(b):
    """[(block, text-with-{} of the piece pushed to a String)]"""
    out = []
    for bi, t in b.live_calls():
        n = callee_name(t)
        if n.endswith("String::push_str"):
            a = strip_refs(b.call_args(bi, expand_vars=True)[1])
            if a[0] == "const" and isinstance(a[1], str):
                out.append((bi, a[1]))
            else:
                parts = sql.format_parts(a)
                if parts:
                    out.append((bi, "".join(x[1] if x[0] == "lit" else "{}" for x in parts)))
    return out


def run(P, C, tier):
    C.explanation = (
        "Equality of query results with a reference evaluation lies in values computed by SQLite over generated models, data "
        "and queries: it is NOT decided (a reference evaluator is another technique family). Decided are necessary structural "
        "clauses of the compiler that the statement of C05 depends on: (1) paging with before/after can visit every row exactly "
        "once only if the ordering is total, i.e. ends with a unique key; (2) skip/first are emitted as a well-formed LIMIT/OFFSET "
        "pair on every path; (3) a selected field that has a default value is wrapped in Ifnull(value, default) in every selection "
        "arm; (4) every order_by key is emitted with its own direction. Each clause is a property of the shape of the compiler.")
    C.rule("R1", "a paged query (before/after) is totally ordered: the parser requires, or the compiler appends, a unique last key")
    C.rule("R2", "OFFSET is never emitted without a LIMIT before it on the same path (SQLite rejects a bare OFFSET)")
    C.rule("R3", "in get_fields every arm that selects a scalar/json field with a default value emits Ifnull(<field>, <default>)")
    C.rule("R4", "get_order emits each order_by key with the direction parsed for it")
    # ---- R1
    total = False
    try:
        fin = P.body("query_parser::EntityQuery::finalize")
        C.saw(fin)
        for bi, t in fin.live_calls():
            txt = term_str(fin.def_term(bi, None, t, 0))
            if re.search(r"ID_FIELD|rowid", txt) and re.search(r"order_by", txt) and re.search(r"push|last|insert", txt):
                total = True
        gp = P.body("query::get_paging")
        go = P.body("query::get_order")
        C.saw(gp), C.saw(go)
        for b in (gp, go):
            for bi, piece in pushes(b):
                if re.search(r"\b(rowid|\.id)\b", piece):
                    total = True
        C.ob("R1", "paging-tie-break", total, gp.loc(),
             "before/after compare the order_by keys with strict < / >; neither EntityQuery::finalize requires a unique last key nor get_order/get_paging append id or rowid: "
             "rows that tie with the cursor on every order_by key are never visited (e.g. three rows with the same name, order_by(name asc), first 2, then after(\"a\") returns nothing)")
    except mir.MissingAnchor as e:
        C.anchor_missing("R1", "paging", e)
    # ---- R2
    try:
        gl = P.body("query::get_limit")
        C.saw(gl)
        ps = pushes(gl)
        limits = [bi for bi, p in ps if re.search(r"\bLIMIT\b", p)]
        offsets = [bi for bi, p in ps if re.search(r"\bOFFSET\b", p)]
        C.floor("R2", "LIMIT pieces", len(limits), 2)
        C.floor("R2", "OFFSET pieces", len(offsets), 2)
        def reach_without_limit(target):
            """is `target` reachable from the entry without passing a LIMIT piece, when the tests of one and the same
            Option place (`x.is_some()`, `if let Some(..) = &x`) are answered consistently along the path"""
            succ = gl.succs()
            seen = set()
            work = [(0, frozenset())]
            while work:
                x, know = work.pop()
                if (x, know) in seen or x in limits:
                    continue
                seen.add((x, know))
                if x == target:
                    return True
                tt = gl.blocks[x]["t"]
                if tt["k"] == "switch" and len(succ[x]) > 1:
                    term = gl.switch_term(x, expand_vars=False)
                    place = None
                    edges = []
                    if term[0] == "discr":
                        place = field_path(term[1])
                        table = dict(term[3])
                        for tg, vals in rights.switch_edges(gl, x):
                            names = {table.get(v, "otherwise") if v != "otherwise" else "otherwise" for v in vals}
                            some = True if names == {"Some"} else False if names == {"None"} else None
                            edges.append((tg, some))
                        if not all(e[1] is not None for e in edges) and len(edges) == 2 and any(e[1] is not None for e in edges):
                            known = [e for e in edges if e[1] is not None][0][1]
                            edges = [(tg, sm if sm is not None else (not known)) for tg, sm in edges]
                    else:
                        atom, _ = mir.cond_atoms(term, [0])
                        if atom[0] == "call" and atom[2] and re.search(r"Option.*::(is_some|is_none)$", atom[1]):
                            place = field_path(atom[2][0])
                            for tg, vals in rights.switch_edges(gl, x):
                                tr = mir.cond_atoms(term, vals)[1]
                                some = tr if atom[1].endswith("is_some") else (None if tr is None else not tr)
                                edges.append((tg, some))
                    if place and edges and all(e[1] is not None for e in edges):
                        kd = dict(know)
                        for tg, some in edges:
                            if place in kd and kd[place] != some:
                                continue
                            work.append((tg, frozenset(list(know) + [(place, some)])))
                        continue
                for sx in succ[x]:
                    work.append((sx, know))
            return False

        for i, ob in enumerate(offsets):
            ok = not reach_without_limit(ob)
            C.ob("R2", "offset-after-limit#%d" % i, ok, gl.loc(ob), "every path that emits OFFSET has emitted a LIMIT before: %s%s" % (ok, "" if ok else " -- `skip` without `first` (first defaults to 0 = no LIMIT) compiles to `… OFFSET n`, which SQLite rejects"))
    except mir.MissingAnchor as e:
        C.anchor_missing("R2", "get_limit", e)
    # ---- R3
    try:
        gf = P.body("query::get_fields")
        C.saw(gf)
        n = 0
        for bi, piece in pushes(gf):
            g = gf.guards(bi, expand_vars=True)
            has_default = any((mir.discr_variants(term, vals) or (None, []))[1] == ["Some"] and field_path((mir.discr_variants(term, vals) or (("unknown",), []))[0]).endswith("default_value") for s, vals, term in g)
            arm = None
            for s, vals, term in g:
                dv = mir.discr_variants(term, vals)
                if dv and term[2].endswith("QueryFieldType") and len(dv[1]) == 1:
                    arm = dv[1][0]
            if arm in ("Scalar", "Json") and has_default:
                n += 1
                ok = re.search(r"Ifnull\(\{\},\s*\{\}\)", piece) is not None
                C.ob("R3", "default-applied:%s" % arm, ok, gf.loc(bi), "selection of a %s field with a default: `%s`" % (arm, piece.strip()[:50]))
        C.floor("R3", "selection arms with a default", n, 2)
    except mir.MissingAnchor as e:
        C.anchor_missing("R3", "get_fields", e)
    # ---- R4
    try:
        go = P.body("query::get_order")
        n = 0
        for bi, t in go.live_calls():
            if callee_name(t).endswith("fmt::format"):
                parts = sql.format_parts(go.def_term(bi, None, t, 0, expand_vars=True)) or []
                holes = [p for p in parts if p[0] == "hole"]
                if len(holes) == 2:
                    n += 1
                    d = holes[1][1]
                    ok = d[0] == "phi" and {term_str(x) for x in d[1]} <= {"from('asc')", "from('desc')"} or "asc" in term_str(d)
                    key = mir.full_path(go, holes[0][1])
                    C.ob("R4", "order-key#%d" % n, ok and re.search(r"\.order_by\.\[\]\.(name|field\.short_name)$", key) is not None, go.loc(bi), "`%s %s`" % (key, term_str(d)[:40]))
        C.floor("R4", "order key templates", n, 3)
        # direction derives from ord.direction
        dirs = [sb for sb in go.live_blocks() if go.blocks[sb]["t"]["k"] == "switch" and go.switch_term(sb)[0] == "discr" and mir.full_path(go, go.switch_term(sb)[1]).endswith(".order_by.[].direction")]
        C.ob("R4", "direction-from-key", len(dirs) == 1, go.loc(), "asc/desc chosen by a match on the direction of the same order_by element")
    except mir.MissingAnchor as e:
        C.anchor_missing("R4", "get_order", e)
