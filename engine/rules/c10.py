"""C10 — a room means the same live, after restart, and on a peer that imports it."""
import re
import mir
from mir import term_str, strip_refs, callee_name, field_path, full_path
from rules import rights
from rules.c07 import decisions, list_of

BUILDERS = {"Room::add_admin_user": "admins", "Authorisation::add_user": "users", "Authorisation::add_user_admin": "user_admins", "Authorisation::add_right": "rights"}
# the three construction paths
LIVE = ["RoomAuthorisations::validate_room_mutation", "RoomAuthorisations::validate_authorisation_mutation"]
RELOAD = ["RoomAuthorisations::load_json", "room::load_auth_from_json"]
IMPORT = ["room_node::RoomNode::parse", "room_node::AuthorisationNode::parse", "room_node::prepare_room_with_history", "room_node::prepare_auth_with_history",
          # first import of a room: the administrator entries are replayed in date order into a scratch history that is only
          # consulted (C07-R5) and never installed; the room that is installed comes from RoomNode::parse
          "room_node::prepare_new_room"]
BOOT = ["RoomAuthorisations::create_system_room"]


def sort_direction(P, clos):
    """'asc' when the comparator calls cmp(<first param>.., <second param>..), 'desc' when reversed"""
    for bi, t in clos.calls_to(r"::cmp$"):
        a = clos.call_args(bi)
        def root(x):
            while x[0] in ("ref", "deref", "field", "downcast"):
                x = x[1]
            return x
        r0, r1 = root(a[0]), root(a[1])
        if r0[0] == "param" and r1[0] == "param":
            f = field_path(a[0]).split(".")[-1]
            return ("asc" if r0[2] < r1[2] else "desc"), f
    return None, None


def run(P, C, tier):
    C.explanation = (
        "Static decision that the three construction paths of a room (live mutation, reload from storage, import from a "
        "peer) are the same function of the entries: one set of history builders with an append-in-date-order precondition, "
        "every producer of an entry sequence ascending by date (reload query text, export sorts, merge sorts), one "
        "normalising constructor for rights, and one entitlement table for user entries on every path. Values of access "
        "decisions are not computed.")
    C.rule("R1", "history vectors are extended only inside the four builders; the builders are called from the audited construction paths only")
    C.rule("R2", "every producer of an entry sequence handed to the builders is ascending by date: LOAD_QUERY order_by clauses, sort_by comparators of room_node.rs")
    C.rule("R3", "EntityRight values are built only by EntityRight::new (which forces own-rows right when all-rows is set)")
    C.rule("R4", "the builders reject an entry older than the last one (the precondition R2 relies on)")
    C.rule("R5", "who may add a user entry is the same table (user admin of the group, or room admin) on the live, merge and first-import paths")
    # ---- R1
    hist_fields = {"admins", "users", "user_admins", "rights"}
    n_sites = 0
    for body in P.bodies.values():
        for bi, t in body.calls_to(r"Vec::push$"):
            a = body.call_args(bi, expand_vars=True)
            recv = a[0]
            c = mir.has_call(recv, r"(hash_map::Entry.*::or_default$|HashMap::entry$|HashMap::get_mut$)")
            if c is None:
                continue
            inner = mir.has_call(recv, r"HashMap::entry$|HashMap::get_mut$")
            if inner is None:
                continue
            f = field_path(inner[2][0]).split(".")[-1]
            if f in hist_fields and ("database::room::" in body.id):
                ok = any(body.id.endswith(b) for b in BUILDERS)
                C.ob("R1", "push:%s.%s" % (mir.short(body.id), f), ok, body.loc(bi), "history vector `%s` extended in %s" % (f, mir.short(body.id)))
    allowed = LIVE + RELOAD + IMPORT + BOOT
    for bname in BUILDERS:
        sites = P.call_sites(r"database::room::" + re.escape(bname) + "$")
        for cb, bi, t in sites:
            owner = P.owner_fn(cb.id)
            n_sites += 1
            C.ob("R1", "%s<-%s" % (bname.split("::")[-1], mir.short(owner)), any(owner.endswith(x) for x in allowed), cb.loc(bi), "builder called from an audited construction path", nontrivial=False)
    C.floor("R1", "builder call sites", n_sites, 16)
    # ---- R4 builders reject out-of-order entries
    for bname in BUILDERS:
        try:
            b = P.body("database::room::" + bname)
            C.saw(b)
            ok = False
            for sb in b.live_blocks():
                t = b.blocks[sb]["t"]
                if t["k"] == "switch":
                    term = b.switch_term(sb, expand_vars=True)
                    if term[0] == "bin" and term[1] == "Gt":
                        l, r = field_path(term[2]).split(".")[-1], field_path(term[3]).split(".")[-1]
                        if l in ("date", "valid_from") and r in ("date", "valid_from") and mir.has_call(term[2], r"::last$"):
                            ra = mir.return_assignments(b)
                            for tg, vals in rights.switch_edges(b, sb):
                                if mir.cond_atoms(term, vals)[1] is True and not (b.reachable(tg) & set(ra["Ok"])):
                                    ok = True
            C.ob("R4", "order-precondition:" + bname.split("::")[-1], ok, b.loc(), "last.date > new.date is an Err")
        except mir.MissingAnchor as e:
            C.anchor_missing("R4", bname, e)
    # ---- R4b: each construction path builds an entry from the entry's own data (its own date in particular)
    C.rule("R6", "each path builds a history entry from the entry's own object/row: its own date, key, flag, entity (never the enclosing group's or room's)")
    ENTRY_SITES = [
        # (function, constructor regex, kind, {field position or name: expected own-source pattern})
        # own object of the entry: the JSON object of the loop item (one right of the group's array) / of the parameter
        ("room::load_auth_from_json", r"room::EntityRight::new$", "call", "loop-item"),
        ("room::load_user_from_json", "database::room::User", "aggr", "param"),
    ]
    for fn, ctor, kind, own in ENTRY_SITES:
        try:
            b = P.body(fn)
        except mir.MissingAnchor as e:
            C.anchor_missing("R6", fn, e)
            continue
        C.saw(b)
        ops = []
        if kind == "call":
            for bi, t in b.calls_to(ctor):
                ops = [(i, a) for i, a in enumerate(b.call_args(bi, expand_vars=True))]
                site = b.loc(bi)
        else:
            for bi in b.live_blocks():
                for si, st in enumerate(b.blocks[bi]["s"]):
                    rv = st["rv"]
                    if rv["r"] == "aggr" and rv.get("adt") == ctor:
                        t = b.def_term(bi, si, rv, 0, expand_vars=True)
                        ops = list(zip(t[5], t[4]))
                        site = "%s:%d" % (b.file, st["at"][0])
        if not ops:
            C.anchor_missing("R6", fn + " constructor", "no %s" % ctor)
            continue
        for name, a in ops:
            g = mir.has_call(a, r"serde_json::Map.*::get$|Map<.*>::get$|map::Map::get$")
            if g is None:
                C.ob("R6", "%s:%s" % (fn.split("::")[-1], name), False, site, "argument %s is not read from a JSON object" % name)
                continue
            # the object the value is read from, identified by what it is: as_object() of the loop item / of the parameter
            recv = None
            for bi2, t2 in b.calls_to(r"Map.*::get$"):
                if bi2 == g[3]:
                    recv = b.call_args(bi2)[0]
            kind_of = "?"
            shown = "?"
            if recv is not None:
                rv_ = mir.strip(recv)
                ds = b.var_defs(rv_) if rv_[0] == "var" else [rv_]
                for d0 in ds:
                    ao = mir.has_call(d0, r"serde_json::Value::as_object$")
                    if ao is not None and ao[2]:
                        src = b.copy_root(mir.strip(ao[2][0]))      # through the parameter of a helper analysed inlined
                        shown = b.cpath(src)
                        if src[0] == "param":
                            kind_of = "param"
                        elif src[0] == "var" and mir.elem_collection(b, src) is not None:
                            kind_of = "loop-item"
                        else:
                            kind_of = "other"
            C.ob("R6", "%s:%s" % (fn.split("::")[-1], name), kind_of == own, site,
                 "entry field %s is read from the JSON object of `%s` (%s; the entry's own object is the %s): a date or flag taken from the enclosing group/room gives the entry another meaning after a restart than live or on import" % (name, shown, kind_of, own))
    # live and import paths: the entry date is the entry row's own mdate
    for fn, want in (("room_node::EntityRightNode::parse", "self.node.mdate"), ("room_node::UserNode::parse", "self.node.mdate")):
        b = P.body(fn, required=False)
        if b is None:
            C.anchor_missing("R6", fn, "missing")
            continue
        C.saw(b)
        dates = []
        for bi, t in b.calls_to(r"room::EntityRight::new$"):
            dates.append(field_path(b.call_args(bi, expand_vars=True)[0]))
        for bi in b.live_blocks():
            for si, st in enumerate(b.blocks[bi]["s"]):
                rv = st["rv"]
                if rv["r"] == "aggr" and rv.get("adt") == "database::room::User":
                    t = b.def_term(bi, si, rv, 0, expand_vars=True)
                    dates.append(field_path(t[4][t[5].index("date")]))
        C.ob("R6", "%s:date" % fn.split("::")[-2], bool(dates) and all(d == want for d in dates), b.loc(), "entry date on the import path: %s (expected the entry row's own %s)" % (dates, want))
    for fn, callers in (("room::entity_right_from_json", r"room::entity_right_from_json$"), ("room::user_from_json", r"room::user_from_json$")):
        sites = P.call_sites(callers)
        okc = bool(sites)
        seen_args = []
        for cb, bi, t in sites:
            a = cb.call_args(bi)
            da = [field_path(x) for x in a if field_path(x).endswith("mdate")]
            ja = [field_path(x) for x in a if field_path(x) == "json" or field_path(x).endswith("_json")]
            seen_args.append(da)
            okc = okc and len(da) == 1 and re.search(r"(^|\.)node\.mdate$|^[^.]+\.mdate$", da[0]) is not None and "Node" in cb.root_type(mir.strip([x for x in a if field_path(x).endswith("mdate")][0]))
        C.ob("R6", "%s:date" % fn.split("::")[-1], okc, "", "entry date on the live path: the mutated entry row's own mdate at every call site (%s)" % seen_args)
    # ---- R2 (a) reload query
    lq = [c for p, c in P.consts.items() if p.endswith("RoomAuthorisations::LOAD_QUERY")]
    if len(lq) != 1 or not isinstance(lq[0]["v"], str):
        C.anchor_missing("R2", "LOAD_QUERY", "constant not found")
    else:
        text = lq[0]["v"]
        clauses = re.findall(r"(\w+)\s*\(\s*order_by\s*\(\s*(\w+)\s+(\w+)\s*\)\s*\)", text)
        for field, key, direction in clauses:
            C.ob("R2", "LOAD_QUERY:%s" % field, key == "mdate" and direction.lower() == "asc", "%s:%d" % (lq[0]["span"][0], lq[0]["span"][1]),
                 "entries of `%s` are loaded order_by(%s %s); the builders need ascending dates" % (field, key, direction))
        C.floor("R2", "order_by clauses of LOAD_QUERY", len(clauses), 4)
        # every multi-entry sub-selection has a clause
        for field in ("admin", "rights", "users", "user_admin"):
            C.ob("R2", "LOAD_QUERY:has:%s" % field, any(f == field for f, _, _ in clauses), "", "sub-selection %s is ordered" % field, nontrivial=False)
    # ---- R2 (b) sorts of room_node.rs
    n_sorts = 0
    for body in P.in_file("src/database/room_node.rs"):
        for bi, t in body.calls_to(r"slice::.*sort_by$|::sort_by$"):
            a = body.call_args(bi)
            clos = a[1]
            if clos[0] != "aggr" or clos[1] != "closure":
                continue
            cb = P.bodies.get(clos[2])
            if cb is None:
                continue
            d, f = sort_direction(P, cb)
            if f not in ("cdate", "mdate"):
                continue
            n_sorts += 1
            lt = mir.strip(a[0])
            if lt[0] == "field":
                lst = lt[2]
            else:
                # a local list: named after the struct field it is stored in (RoomNode / AuthorisationNode literal)
                lst = None
                for bi2 in body.live_blocks():
                    for si2, st2 in enumerate(body.blocks[bi2]["s"]):
                        rv2 = st2["rv"]
                        if rv2["r"] == "aggr" and rv2.get("kind") == "adt" and rv2.get("fields"):
                            t2 = body.def_term(bi2, si2, rv2, 0)
                            for fname, op in zip(t2[5], t2[4]):
                                if mir.strip(op)[:3] == lt[:3]:
                                    lst = fname
                if lst is None:
                    lst = "list#%d" % n_sorts
            owner = mir.short(body.id)
            k = "%s:%s" % (owner, lst)
            C.ob("R2", "sort:" + k, d == "asc", body.loc(bi), "%s sorted by %s %s before its entries are parsed/merged in order" % (lst, f, d))
    C.floor("R2", "date sorts in room_node.rs", n_sorts, 12)
    # ---- R3
    n_lit = 0
    for body in P.bodies.values():
        if body.from_expansion:
            continue
        for bi in body.live_blocks():
            for st in body.blocks[bi]["s"]:
                rv = st["rv"]
                if rv["r"] == "aggr" and rv.get("adt") == "database::room::EntityRight" and not st["at"][1]:
                    n_lit += 1
                    C.ob("R3", "literal:" + mir.short(body.id), body.id.endswith("EntityRight::new"), "%s:%d" % (body.file, st["at"][0]),
                         "EntityRight struct literal outside EntityRight::new bypasses the mutate_all => mutate_self normalisation")
    C.floor("R3", "EntityRight literals", n_lit, 1)
    try:
        nb = P.body("room::EntityRight::new")
        C.saw(nb)
        norm = False
        lit = None
        for bi in nb.live_blocks():
            for si, st in enumerate(nb.blocks[bi]["s"]):
                rv = st["rv"]
                if rv["r"] == "aggr" and rv.get("adt") == "database::room::EntityRight":
                    lit = nb.def_term(bi, si, rv, 0)
        if lit is not None:
            f = dict(zip(lit[5], lit[4]))
            ms, ma = mir.strip(f.get("mutate_self", ("unknown",))), mir.strip(f.get("mutate_all", ("unknown",)))
            for sb in nb.live_blocks():
                t = nb.blocks[sb]["t"]
                if t["k"] == "switch" and mir.strip(nb.switch_term(sb))[:3] == ma[:3] and ma[0] in ("var", "param"):
                    for tg, vals in rights.switch_edges(nb, sb):
                        if mir.cond_atoms(nb.switch_term(sb), vals)[1] is True:
                            for st in nb.blocks[tg]["s"]:
                                if ms[0] in ("var", "param") and st["lhs"] == [ms[2]] and st["rv"]["r"] == "use" and st["rv"]["o"].get("k", {}).get("v") is True:
                                    norm = True
        C.ob("R3", "normalisation", norm, nb.loc(), "EntityRight::new sets mutate_self when mutate_all")
    except mir.MissingAnchor as e:
        C.anchor_missing("R3", "EntityRight::new", e)
    # ---- R5
    want = {"can_admin_users", "is_admin"}
    tab = {}
    for fn in ("room_node::prepare_auth_with_history", "room_node::prepare_new_auth", "room_node::prepare_new_room"):
        try:
            b = P.body(fn)
            C.saw(b)
            preds = {d["pred"] for d in decisions(P, b) if list_of(d["user"]) == "user_nodes"}
            tab[fn.split("::")[-1]] = preds
        except mir.MissingAnchor as e:
            C.anchor_missing("R5", fn, e)
    # live path: need_user_admin -> can_admin_users, falling back to the room-admin requirement
    try:
        va = P.body("RoomAuthorisations::validate_authorisation_mutation")
        vr = P.body("RoomAuthorisations::validate_room_mutation")
        live = set()
        for s in rights.can_sites(P, va):
            live.add(s["kind"])
        for s in rights.can_sites(P, vr):
            live.add(s["kind"])
        tab["live"] = live & want
    except mir.MissingAnchor as e:
        C.anchor_missing("R5", "live path", e)
    for k, v in sorted(tab.items()):
        C.ob("R5", "user-entitlement:" + k, v == want, "src/database/room_node.rs" if k != "live" else "src/database/authorisation_service.rs",
             "a user entry is accepted from a user admin of the group or a room admin; this path accepts: %s" % sorted(v))
    r7_change_flag(P, C)


def r7_change_flag(P, C, R="R7"):
    """prepare_room_with_history / prepare_auth_with_history return `need_update`: true when ANY part of the received definition
    changes the stored one. The caller stores the merged room only when the flag is true, so a part whose verdict overwrites an
    earlier `true` is dropped from the stored room although it was accepted. Decided on the definitions of the returned flag."""
    C.rule(R, "the change flag returned by the merge of a received room definition accumulates: after its initialisation it is only ever set to "
              "true, OR-ed with a new verdict, or assigned while it is known to be false -- never overwritten by the verdict of a later part")
    n = 0
    for fn in ("room_node::prepare_room_with_history", "room_node::prepare_auth_with_history"):
        try:
            b = P.body(fn)
        except mir.MissingAnchor as e:
            C.anchor_missing(R, fn, e)
            continue
        C.saw(b)
        flags = set()
        for bi in mir.return_assignments(b)["Ok"]:
            for st in b.blocks[bi]["s"]:
                if st["lhs"] == [0] and st["rv"]["r"] == "aggr" and st["rv"]["ops"]:
                    t = mir.strip_refs(b.operand_term(st["rv"]["ops"][0]))
                    if t[0] == "var" and len(t) > 2 and b.locals[t[2]] == "bool":
                        flags.add(t[2])
        for L in sorted(flags):
            ds = [d for d in b.defs().get(L, ()) if len(d[3]) == 1 and d[0] in b.live_blocks()]
            bad = []
            for (bi, si, rv, lhs) in ds:
                if si is not None and rv["r"] == "use" and "k" in rv["o"] and rv["o"]["k"].get("ty") == "bool":
                    if rv["o"]["k"].get("v") is True:
                        continue
                    if all(bi in b.dom_chain(o[0]) for o in ds if o is not (bi, si, rv, lhs) and o[0] != bi):
                        continue  # the initialisation
                    bad.append("reset to false at %s" % b.loc(bi))
                    continue
                if si is not None and rv["r"] == "bin" and rv["op"] in ("BitOr",):
                    ops = [mir.strip_refs(b.operand_term(rv["a"])), mir.strip_refs(b.operand_term(rv["b"]))]
                    if any(o[0] == "var" and len(o) > 2 and o[2] == L for o in ops):
                        continue
                dt = mir.strip_refs(b.def_term(bi, si, rv, 0))
                alts = dt[1] if dt[0] == "phi" else [dt]
                if all((a_[0] == "var" and len(a_) > 2 and a_[2] == L) or (a_[0] == "const" and a_[1] is True) for a_ in map(mir.strip_refs, alts)):
                    continue  # keeps its value (`flag = verdict || flag` on the false edge)
                known_false = False
                for s_, vals, term in b.guards(bi):
                    atom, truth = mir.cond_atoms(term, vals)
                    atom = mir.strip_refs(atom)
                    if atom[0] == "var" and len(atom) > 2 and atom[2] == L and truth is False:
                        known_false = True
                if known_false or len(ds) == 1:
                    continue
                bad.append("overwritten by a computed value at %s" % b.loc(bi))
            n += 1
            C.ob(R, "change-flag:%s" % fn.split("::")[-1], not bad, b.loc(),
                 "%d definition(s) of the returned flag; %s" % (len(ds), "all accumulate" if not bad else "; ".join(bad) +
                 " -- an accepted change of an earlier part (a new admin, a new member of another group) is not stored when the last part brings nothing new"))
    C.floor(R, "returned change flags", n, 2)
