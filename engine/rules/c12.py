"""C12 — local acceptance and peer acceptance give the same verdict (sibling cross-check)."""
import re
import mir
from mir import term_str, strip_refs, callee_name, field_path
from rules import rights
from rules.c01 import author_eq_for


def size_limit(body):
    """a branch on `size > self.max_node_size` whose true edge refuses"""
    ra = mir.return_assignments(body)
    for sb in sorted(body.live_blocks()):
        t = body.blocks[sb]["t"]
        if t["k"] != "switch":
            continue
        term = body.switch_term(sb, expand_vars=True)
        if term[0] == "bin" and term[1] == "Gt" and field_path(term[3]).endswith("max_node_size") and mir.has_call(term[2], r"bincode::serialized_size$"):
            for tg, vals in rights.switch_edges(body, sb):
                if mir.cond_atoms(term, vals)[1] is True:
                    region = body.reachable(tg)
                    refuses = not (region & (set(ra["Ok"]) | set(ra["true"])))
                    return True, refuses, body.loc(sb)
    return False, False, body.loc()


def kind_table(sites):
    """canonical (idiom independent) table of the right kinds chosen by the decisions of `sites`"""
    if not sites:
        return set()
    return rights.canonical_kinds(sites[0]["body"], [s for s in sites if s["kind"] == "can"])


def run(P, C, tier):
    C.explanation = (
        "Sibling cross-check of the two implementations of one decision: each obligation is a structural predicate evaluated "
        "on the local validator (validate_entity_mutation / validate_deletion and the row builder) and on the remote one "
        "(validate_node, validate_*_deletions, validate_json_for_entity); a row passes only if both sides have it. Decides "
        "agreement of the decision *structure* (which right, which key, which date, which room, which value shapes), not "
        "of computed values.")
    C.rule("R1", "both paths refuse a row larger than max_node_size")
    C.rule("R2", "both paths choose the right kind from the same table {same author: own-rows, different author: all-rows, no previous row: own-rows}")
    C.rule("R3", "both paths decide at the row's own date: the local decision date is the value stored as the row's mdate")
    C.rule("R4", "both paths check the leaving room, keyed by the previous row's room, when the room changes")
    C.rule("R5", "deletions: both paths use own-rows right for the deleter's own rows/references and all-rows right otherwise")
    C.rule("R6", "every JSON value shape the local path can store for a field is accepted by validate_json_for_entity")
    C.rule("R7", "a stored row that the local path re-signs under the caller's key passes, locally, the decision the peers will apply to it (author comparison on the row itself)")
    try:
        loc = P.body("RoomAuthorisations::validate_entity_mutation")
        rem = P.body("RoomAuthorisations::validate_node")
        dele = P.body("RoomAuthorisations::validate_deletion")
        C.saw(loc), C.saw(rem), C.saw(dele)
    except mir.MissingAnchor as e:
        C.anchor_missing("R1", "validators", e)
        return
    # R1
    for name, b in (("local", loc), ("remote", rem)):
        has, refuses, where = size_limit(b)
        C.ob("R1", "size-limit:" + name, has and refuses, where, "serialized_size(row) > max_node_size refuses: present=%s refuses=%s" % (has, refuses))
    # R1: the local path measures the row in the form the peers will measure it: signed (the key and the signature are 96 of the bytes)
    try:
        vm = P.body("RoomAuthorisations::validate_mutation")
        C.saw(vm)
        signs = []
        for bi, t in vm.calls_to(r"MutationQuery::sign_all$"):
            re_ = mir.result_edges_any(vm, bi)
            signs.append((bi, re_))
        sites = [bi for bi, t, ob, obi in vm.calls_incl_closures() if callee_name(t).endswith("RoomAuthorisations::validate_entity_mutation")]
        unsigned = []
        for sbi in sites:
            doms = vm.dom_chain(sbi)
            if not any(bi in doms and re_ is not None and re_.get("ok") in doms + [sbi] for bi, re_ in signs):
                unsigned.append(vm.loc(sbi))
        ok = bool(signs) and bool(sites) and not unsigned
        C.ob("R1", "size-limit:local-measures-signed-row", ok, vm.loc(signs[0][0]) if signs else vm.loc(),
             "%d call(s) of validate_entity_mutation (which measures serialized_size(row)); preceded on every path by the Ok edge of sign_all: %s%s" % (
                 len(sites), not unsigned, "" if ok else " -- a new row is measured with an empty key and signature, 96 bytes smaller than the row "
                 "peers measure: a row within 96 bytes above the limit is accepted locally and refused by every peer (sites: %s)" % unsigned))
    except mir.MissingAnchor as e:
        C.anchor_missing("R1", "validate_mutation", e)
    # R2
    ls = rights.can_sites(P, loc)
    ltab = kind_table([s for s in ls if not s["room_ineq"]])
    rs = rights.can_sites(P, rem)
    rtab = kind_table(rs)
    want = rights.WANT_KINDS
    C.ob("R2", "kind-table:local", ltab == want, loc.loc(), "local table %s" % sorted(ltab))
    C.ob("R2", "kind-table:remote", rtab == want, rem.loc(), "remote table %s" % sorted(rtab))
    C.ob("R2", "kind-table:agree", ltab == rtab, loc.loc(), "local and remote choose the right kind identically")
    C.ob("R2", "remote-uses-table", len(rs) >= 2 and all(kind_table([s]) == want for s in rs), rem.loc(), "every remote decision (entering and leaving room) chooses its right by the author comparison")
    # R3
    ldates = {s["date"] for s in ls}
    C.ob("R3", "local-date", ldates == {"‹InsertEntity›.node_to_mutate.date"}, loc.loc(), "local decisions at %s" % sorted(ldates))
    C.ob("R3", "remote-date", {s["date"] for s in rs} == {"‹NodeToInsert›.node.mdate"}, rem.loc(), "remote decisions at %s" % sorted({s["date"] for s in rs}))
    try:
        cn = P.body("MutationQuery::create_node_to_mutate")
        C.saw(cn)
        # NodeToMutate{date: X, node: Some(new_node)} with new_node.mdate = X (same parameter)
        ok = False
        det = []
        DATE = cn.the_local("the operation date of create_node_to_mutate", ty=r"^i64$", param=True)
        for bi in cn.live_blocks():
            for si, st in enumerate(cn.blocks[bi]["s"]):
                rv = st["rv"]
                if rv["r"] == "aggr" and rv.get("adt", "").endswith("NodeToMutate") and "old_node" in rv["fields"]:
                    t = cn.def_term(bi, si, rv, 0)
                    d = t[4][t[5].index("date")]
                    det.append("NodeToMutate.date=%s" % term_str(d))
                    if d[0] == "param" and d[1] == DATE:
                        ok = True
        md = False
        for l, n, lty, leaf in cn.named_locals():
            if re.search(r"node::Node$", lty):
                for (bi, si, rv, lhs) in cn.defs().get(l, ()):
                    if lhs[1:] == [".mdate"]:
                        t = cn.def_term(bi, si, rv, 0)
                        md = md or (t[0] == "param" and t[1] == DATE)
        C.ob("R3", "local-date-is-row-date", ok and md, cn.loc(), "updated row: mdate := date and decision date := the same parameter (%s, mdate=%s)" % (det, md))
        gm = P.body("MutationQuery::get_mutate_query")
        C.saw(gm)
        md2 = False
        DATE2 = gm.the_local("the operation date of get_mutate_query", ty=r"^i64$", param=True)
        for bi in gm.live_blocks():
            for si, st in enumerate(gm.blocks[bi]["s"]):
                if st["lhs"][-1:] == [".mdate"]:
                    t = gm.def_term(bi, si, st["rv"], 0)
                    md2 = md2 or (t[0] == "param" and t[1] == DATE2)
        C.ob("R3", "local-date-final", md2, gm.loc(), "get_mutate_query stores node.mdate = date, the same date passed to create_node_to_mutate")
    except mir.MissingAnchor as e:
        C.anchor_missing("R3", "create_node_to_mutate", e)
    # R4
    for name, b, ss in (("local", loc, ls), ("remote", rem, rs)):
        lv = [s for s in ss if s["room_ineq"]]
        ok = bool(lv) and all(s["room_key"] and "old" in s["room_key"] for s in lv)
        C.ob("R4", "leaving-room:" + name, ok, b.loc(), "%d leaving-room decisions keyed by %s" % (len(lv), sorted({str(s["room_key"]) for s in lv})))
    # R5
    dl = kind_table(rights.can_sites(P, dele))
    for fn in ("RoomAuthorisations::validate_edge_deletions", "RoomAuthorisations::validate_node_deletions"):
        b = P.body(fn)
        C.saw(b)
        rt = kind_table(rights.can_sites(P, b))
        # the remote side additionally accepts a record whose target is unknown locally with the own-rows right
        C.ob("R5", "deletion-kinds:" + fn.split("::")[-1], rt == dl and dl == rights.WANT_KINDS, b.loc(), "local %s vs remote %s" % (sorted(dl), sorted(rt)))
        # both paths decide a deletion at the date of the deletion (the local path: the date of the operation, which is the
        # date stored in the record), never at the date of the deleted row
        rdates = sorted({s["date"] for s in rights.can_sites(P, b) if s["kind"] == "can"})
        C.ob("R5", "deletion-date:" + fn.split("::")[-1], bool(rdates) and all(d.endswith("deletion_date") for d in rdates), b.loc(),
             "remote deletion decisions at %s (the local path decides at the operation date, stored as deletion_date)" % rdates)
    # R6 value shapes
    try:
        vj = P.body("data_model_parser::validate_json_for_entity")
        C.saw(vj)
        hdrs = [bi for bi, t in vj.live_calls() if "d:ForLoop" in t["at"][1] and callee_name(t).endswith("::next")]
        type_tests = [bi for bi, t in vj.calls_to(r"serde_json::Value::(as_bool|as_f64|as_str|as_i64|is_object|is_array)$") if hdrs and vj.dominates(hdrs[0], bi)]
        C.floor("R6", "type tests in validate_json_for_entity", len(type_tests), 6)
        ra = mir.return_assignments(vj)
        null_ok = False
        where = vj.loc()
        for sb in sorted(vj.live_blocks()):
            t = vj.blocks[sb]["t"]
            if t["k"] != "switch":
                continue
            term = vj.switch_term(sb, expand_vars=True)
            if term[0] == "discr" and term[2].endswith("serde_json::Value"):
                table = dict(term[3])
                null_t = [tg for v, tg in t["targets"] if table.get(v) == "Null"]
                if not null_t:
                    continue
                g = vj.guards(sb, expand_vars=True)
                nullable = any(field_path(mir.cond_atoms(tm, vals)[0]).endswith("nullable") and mir.cond_atoms(tm, vals)[1] is True for s, vals, tm in g)
                region = vj.reachable(null_t[0], avoid_blocks=set(hdrs))
                clean = not (region & set(ra["Err"])) and not (region & set(type_tests))
                doms = all(vj.dominates(g_[0], tt) for tt in type_tests for g_ in g if field_path(mir.cond_atoms(g_[2], g_[1])[0]).endswith("nullable"))
                if nullable and clean:
                    null_ok = True
                    where = vj.loc(sb)
        # the alternative form: each type test arm itself consults nullable on the Some(value) edge
        C.ob("R6", "explicit-null-of-nullable-field", null_ok, where,
             "the local path stores an explicit null for a nullable field (ParamValue::Null -> serde_json::Value::Null); the remote "
             "validator must accept value==Null when field.nullable before the type tests")
        # Json fields: shape test on both sides or on neither
        gm = P.body("MutationQuery::get_mutate_query")
        local_shape = bool(gm.calls_to(r"serde_json::Value::(is_object|is_array|as_object|as_array)$")) and False
        # is_object in get_mutate_query concerns the whole row (as_object_mut), not the field value: look for a test on the parsed field value
        for bi, t in gm.calls_to(r"serde_json::Value::(is_object|is_array)$"):
            local_shape = True
        remote_shape = bool(vj.calls_to(r"serde_json::Value::is_object$")) and bool(vj.calls_to(r"serde_json::Value::is_array$"))
        C.ob("R6", "json-scalar", local_shape == remote_shape, vj.loc(),
             "Json field value shape: remote requires object/array=%s, local mutation path tests the shape=%s" % (remote_shape, local_shape))
    except mir.MissingAnchor as e:
        C.anchor_missing("R6", "validate_json_for_entity", e)

    # ---- R7 rows re-signed by the local path
    try:
        n = 0
        for fn in ("RoomAuthorisations::validate_deletion", "RoomAuthorisations::validate_mutation"):
            b = P.body(fn)
            C.saw(b)
            for bi, t in b.calls_to(r"database::node::Node::sign$|MutationQuery::sign_all$"):
                n += 1
                recv = mir.full_path(b, b.call_args(bi)[0])
                if callee_name(t).endswith("sign_all"):
                    # the whole mutation: every entity is then decided by validate_entity_mutation with old_node.verifying_key
                    ok = bool(b.calls_to(r"RoomAuthorisations::validate_entity_mutation$"))
                    C.ob("R7", "resign:validate_mutation", ok, b.loc(bi), "every re-signed row of a mutation is decided by validate_entity_mutation, which compares the stored author")
                    continue
                # validate_deletion: the re-signed rows are deletion_query.updated_nodes
                decided = False
                for s2 in rights.can_sites(P, b):
                    eq, other = author_eq_for(s2)
                    if other and "updated_nodes" in other:
                        decided = True
                C.ob("R7", "resign-without-row-decision:" + recv.split(".")[-2] if "." in recv else "resign:" + recv, decided, b.loc(bi),
                     "rows of `%s` are re-dated and re-signed under the caller's key (they change author) but no local decision compares their stored author: peers require the all-rows "
                     "right for such a row (validate_node: old author != new author) while the local path only decided on the reference; a caller owning the reference but not the row, "
                     "holding only the own-rows right, is accepted locally and refused by every peer" % recv)
        C.floor("R7", "re-sign sites on the local path", n, 2)
    except mir.MissingAnchor as e:
        C.anchor_missing("R7", "validate_deletion", e)
