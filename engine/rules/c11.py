"""C11 — a deleted row stays deleted (decided through a necessary condition)."""
import re
import mir
import sql
from mir import term_str, strip_refs, callee_name, field_path, full_path


def sql_texts_reachable(P, roots):
    out = []
    for bid in P.reachable_from(roots):
        b = P.bodies.get(bid)
        if b is None or not b.file.startswith("src/"):
            continue
        for bi, cal, text, holes, term in sql.statements(b):
            if text:
                out.append((b, bi, sql.norm(text)))
    return out


def run(P, C, tier):
    C.explanation = (
        "'Never visible again, whatever is later received' quantifies over synchronisation orders and is not decided. A "
        "necessary condition is visible in the call graph: a peer that applied a deletion can refuse the deleted version "
        "coming back only if the path that decides what to fetch and store consults the deletion records. The rule computes "
        "the functions reachable from that path and searches their SQL statements for a read of _node_deletion_log (rows) "
        "and _edge_deletion_log (references). It also decides that deletions received in one day's exchange are applied "
        "before rows are selected for fetching, and that applying a deletion removes the row and stores the record together.")
    C.rule("R1", "the ingestion path (selection of rows to fetch, model/room filter, rights validation, row write) reaches a statement reading the deletion log of its kind")
    C.rule("R2", "within one day's exchange, received deletions are applied before rows are selected for fetching")
    C.rule("R3", "applying a deletion record deletes the row keyed by (room, id) and stores the record in the same loop iteration of the same transaction")
    node_roots = []
    for fn in ("node::Node::filter_existing", "GraphDatabase::add_nodes::{closure#0}", "RoomAuthorisations::validate_node", "<database::node::NodeToInsert as database::sqlite_database::Writeable>::write", "GraphDatabaseService::filter_existing_node"):
        b = P.body(fn, required=False)
        if b is None:
            C.anchor_missing("R1", fn, "missing")
        else:
            node_roots.append(b.id)
            C.saw(b)
    edge_roots = []
    for fn in ("GraphDatabase::add_edges::{closure#0}", "edge::Edge::write"):
        b = P.body(fn, required=False)
        if b is None:
            C.anchor_missing("R1", fn, "missing")
        else:
            edge_roots.append(b.id)
            C.saw(b)
    pm = P.body("AuthorisationService::process_message::{closure#0}", required=False)
    nt = sql_texts_reachable(P, node_roots)
    et = sql_texts_reachable(P, edge_roots)
    C.extra["statements_on_node_ingestion_path"] = len(nt)
    C.extra["statements_on_edge_ingestion_path"] = len(et)
    hit_n = [(b.loc(bi)) for b, bi, t in nt if re.search(r"(FROM|JOIN)\s+_node_deletion_log", t, re.I)]
    hit_e = [(b.loc(bi)) for b, bi, t in et if re.search(r"(FROM|JOIN)\s+_edge_deletion_log", t, re.I)]
    C.ob("R1", "no-tombstone-lookup/node", bool(hit_n), "src/database/node.rs",
         "statements reachable from the row ingestion path: %d, reading _node_deletion_log: %s -- a row deleted here is fetched and stored again from any peer that has not seen the deletion" % (len(nt), hit_n or "none"))
    C.ob("R1", "no-tombstone-lookup/edge", bool(hit_e), "src/database/edge.rs",
         "statements reachable from the reference ingestion path: %d, reading _edge_deletion_log: %s" % (len(et), hit_e or "none"))
    C.floor("R1", "statements examined on the ingestion paths", len(nt) + len(et), 3)
    # ---- R2
    try:
        sd = P.body("LocalPeerService::synchronise_day::{closure#0}")
        C.saw(sd)
        de = [bi for bi, t in sd.calls_to(r"GraphDatabaseService::delete_edges$")]
        dn = [bi for bi, t in sd.calls_to(r"GraphDatabaseService::delete_nodes$")]
        fe = [bi for bi, t in sd.calls_to(r"GraphDatabaseService::filter_existing_node$")]
        ok = len(fe) == 1 and bool(de) and bool(dn)
        if ok:
            # every path to the selection has gone through the two deletion exchanges (their request sends dominate)
            qe = [bi for bi, t in sd.calls_to(r"LocalPeerService::query_multiple$") if any(s[0] == "aggr" and s[3] in ("EdgeDeletionLog", "NodeDeletionLog") for s in mir.subterms(sd.call_args(bi, expand_vars=True)[1]))]
            ok = len(qe) == 2 and all(sd.dominates(q, fe[0]) for q in qe)
            # the deletion applications are not reachable after the selection
            ok = ok and not any(d in sd.reach_after(fe[0]) for d in de + dn)
        C.ob("R2", "deletions-before-selection", ok, sd.loc(fe[0]) if fe else sd.loc(), "EdgeDeletionLog and NodeDeletionLog are requested and applied before filter_existing_node selects the rows to fetch")
        for name, calls in (("delete_edges", de), ("delete_nodes", dn)):
            for bi in calls:
                re_ = mir.result_edges(sd, bi)
                C.ob("R2", "deletion-failure-propagates:" + name, re_ is not None, sd.loc(bi), "a failed application of received deletions aborts the day's exchange")
    except mir.MissingAnchor as e:
        C.anchor_missing("R2", "synchronise_day", e)
    apply_deletions(P, C, "R3")


def apply_deletions(P, C, R):
    """the application of received deletion records (shared with C03-R7): identity-addressed DELETE, record stored and days marked on every path"""
    from rules.rights import enclosing_loop_header
    for fn, table, keyre in (("node::NodeDeletionEntry::delete_all", "_node", r"room_id\s*=\s*\?\s+AND\s+id\s*=\s*\?"), ("edge::EdgeDeletionEntry::delete_all", "_edge", r"src\s*=\s*\?")):
        try:
            b = P.body(fn)
            C.saw(b)
            st = [(bi, sql.norm(t)) for bi, _, t, _, _ in sql.statements(b) if t]
            dels = [(bi, t) for bi, t in st if re.search(r"DELETE\s+FROM\s+%s\b" % table, t, re.I)]
            ok = len(dels) == 1 and re.search(keyre, dels[0][1], re.I) is not None
            if ok:
                # the row is addressed by its identity only: no further condition (a version or date test would leave
                # an older or newer stored version of the deleted row in place)
                where = re.split(r"\bWHERE\b", dels[0][1], flags=re.I)[1]
                cols = set(re.findall(r"([A-Za-z_][A-Za-z_0-9]*)\s*=\s*\?", where))
                want_cols = {"room_id", "id"} if table == "_node" else {"src", "src_entity", "label", "dest", "cdate"}
                ok = cols == want_cols
            ex = b.calls_to(r"Statement.*::execute$")
            wr = b.calls_to(r"Writeable>::write$|::write$")
            same_iter = False
            if ex and wr:
                from rules.rights import enclosing_loop_header
                h1 = enclosing_loop_header(b, ex[0][0])
                h2 = enclosing_loop_header(b, wr[0][0])
                same_iter = h1 is not None and h1 == h2
                for bi, t in ex + wr:
                    same_iter = same_iter and mir.result_edges(b, bi) is not None
            if ex and wr and same_iter:
                # every path of an iteration that goes on (next iteration or normal return) after the DELETE has been
                # issued stores the record and marks the day: an iteration that skips them (e.g. when no local row was
                # removed) leaves a peer that never held the row without the record, so it can neither refuse the row
                # later nor relay the deletion
                hdr = enclosing_loop_header(b, ex[0][0])
                marks = [bi for bi, t in b.calls_to(r"DailyMutations::set_need_update$")]
                ok_exits = [x for x in b.exits()]
                # exits reached through an Err propagation are not acknowledgements: cut at the `?` error edges
                err_blocks = set()
                for bi, t in ex + wr:
                    re_ = mir.result_edges(b, bi)
                    if re_ and re_.get("err") is not None:
                        err_blocks.add(re_["err"])
                def skips(through):
                    r = b.reach_after(ex[0][0], avoid_blocks=set(through) | err_blocks)
                    return (hdr in r) or any(x in r for x in ok_exits)
                wrote = not skips([w for w, _ in wr])
                marked = bool(marks) and not skips(marks)
                C.ob(R, "record-on-every-path:" + fn.split("::")[-2], wrote and marked, b.loc(ex[0][0]),
                     "after the DELETE every path to the next iteration or the normal return stores the deletion record (%s) and marks the day for recomputation (%s)" % (wrote, marked))
            C.ob(R, "apply:" + fn.split("::")[-2], ok and same_iter, b.loc(), "DELETE FROM %s addressed by exactly the identity columns of the record (no version/date condition), and the record written, in the same iteration with errors propagated: %s/%s" % (table, ok, same_iter))
        except mir.MissingAnchor as e:
            C.anchor_missing(R, fn, e)
