"""Panic-capable sites and their automatic classes (used by C14)."""
import re
import mir
from mir import term_str, strip_refs, callee_name, field_path

PANIC_CALL = re.compile(r"(Option::unwrap$|Option::expect$|Result::unwrap$|Result::expect$|Result::unwrap_err$|Result::expect_err$|"
                        r"panicking::panic$|panicking::panic_fmt$|panicking::panic_explicit$|panicking::unreachable_display$|panicking::assert_failed$|rt::begin_panic$|"
                        r"slice::.*copy_from_slice$|Vec::remove$|Vec::swap_remove$|Vec::insert$|Vec::drain$|Vec::split_off$|VecDeque::remove$|"
                        r"ops::Index.*::index$|ops::IndexMut.*::index_mut$|str::.*split_at$|String::truncate$|String::insert$|String::remove$|"
                        r"RefCell.*::borrow_mut$|RefCell.*::borrow$|chrono.*::(add|sub)$|Duration::.*::(add|sub)$|Instant::.*::(add|sub)$|slice::.*chunks$|Rc::try_unwrap$)")
PARSER_FILES = ("query_language/data_model_parser.rs", "query_language/query_parser.rs", "query_language/mutation_parser.rs", "query_language/deletion_parser.rs", "query_language/parameter.rs")
GRAMMAR_RECV = re.compile(r"(Pairs.*::next$|Pair.*::into_inner$|::next$|Pairs.*::peek$|::next_back$)")


def sites(P, body):
    """[(block, kind, name, term)] of the panic-capable sites of one body"""
    out = []
    for bi, t in body.live_calls():
        n = callee_name(t)
        m = PANIC_CALL.search(n)
        if not m:
            continue
        kind = n.split("::")[-1]
        if "panicking" in n or "begin_panic" in n:
            ex = t["at"][1]
            mac = re.search(r"m:([a-z_]+)", ex)
            kind = (mac.group(1) if mac else "panic") + "!"
        out.append((bi, kind, n, t))
    for bi in sorted(body.live_blocks()):
        t = body.blocks[bi]["t"]
        if t["k"] == "assert":
            out.append((bi, "assert:" + t["msg"], "", t))
    return out


def guard_discharges(body, bi, t, kind):
    """class L: the unwrapped value is tested on every path to the site"""
    if kind not in ("unwrap", "expect"):
        return None
    recv_u = body.call_args(bi)[0]
    recv = strip_refs(recv_u)
    want_opt = callee_name(t).find("Option::") >= 0
    for s, vals, term in body.guards(bi):
        atom, truth = mir.cond_atoms(term, vals)
        if atom[0] == "call" and atom[2]:
            a0 = strip_refs(atom[2][0])
            same = a0 == recv or (a0[0] in ("var", "param") and recv[0] in ("var", "param") and a0[:3] == recv[:3])
            # is_some/is_none/is_ok/is_err on the same place (or on a reference to it)
            if same:
                n = atom[1]
                if (n.endswith("::is_some") and truth is True) or (n.endswith("::is_none") and truth is False) or \
                   (n.endswith("::is_ok") and truth is True) or (n.endswith("::is_err") and truth is False):
                    return "guarded by %s == %s" % (n.split("::")[-1], truth)
        dv = mir.discr_variants(term, vals)
        if dv and strip_refs(dv[0]) == recv and dv[1] in (["Some"], ["Ok"]):
            return "inside the %s arm of a match on the same value" % dv[1][0]
    # `x.is_none() -> return` then x.unwrap(): the guard above handles it (false edge of is_none dominates)
    # shadowed re-binding: `let room = ...get(..); if room.is_none() {return}; let room = room.unwrap();`
    return None


def grammar_shaped(body, bi, t, kind):
    """class G: in the parser modules, unwrap on the next pair of a pest production and unreachable! in the default
    arm of a match on as_rule(): justified by the grammar (assumed, counted separately)"""
    if not body.file.endswith(PARSER_FILES):
        return None
    if kind in ("unwrap", "expect"):
        recv = body.call_args(bi, expand_vars=True)[0]
        c = strip_refs(recv)
        if c[0] == "call" and GRAMMAR_RECV.search(c[1]):
            return "next pair of a pest production"
        if mir.has_call(recv, r"Pairs.*::next$|::into_inner$") is not None:
            return "pest production shape"
    if kind in ("unreachable!",):
        for s, vals, term in body.guards(bi, expand_vars=True):
            if mir.has_call(term, r"Pair.*::as_rule$") is not None:
                return "default arm of a match on as_rule()"
        return "unreachable! in a parser (rule set fixed by the grammar)"
    return None
