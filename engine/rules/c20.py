"""C20 — room synchronisation locks: exclusive, bounded, never lost (pairing clauses)."""
import re
import mir
from mir import term_str, strip_refs, callee_name, field_path, full_path
from rules import rights


LOCKED_TY = r"HashSet<\[u8; 16\]>$"      # the set of rooms being synchronised (identified by type, not by name)


def rooted(b, t, ty_re):
    """the term is a place rooted in a variable of the given type"""
    return re.search(ty_re, mir.short_type(b.root_type(mir.strip(t)))) is not None


def mentions_ty(b, t, ty_re):
    return any(x[0] in ("var", "param") and len(x) > 2 and re.search(ty_re, mir.short_type(b.locals[x[2]])) for x in mir.subterms(t))


def arith_sites(b, op, var):
    """blocks with `*var op= 1` where var is the named counter"""
    out = []
    for bi in sorted(b.live_blocks()):
        for si, st in enumerate(b.blocks[bi]["s"]):
            rv = st["rv"]
            if rv["r"] == "bin" and rv["op"].startswith(op):
                a = b.operand_term(rv["a"])
                if field_path(a).split(".")[-1] == var or field_path(b.origin(mir.strip(a))).split(".")[-1] == var:
                    out.append(bi)
    return out


def has_guard(b, bi, callee_re, truth, mention):
    """mention: a field name, or ('ty', regex) for a variable identified by its type"""
    def men(atom):
        if isinstance(mention, tuple):
            return mentions_ty(b, atom, mention[1])
        return mir.mentions(atom, mention)
    for s, vals, term in b.guards(bi, expand_vars=False):
        atom, tr = mir.cond_atoms(term, vals)
        if atom[0] == "call" and re.search(callee_re, atom[1]) and tr is truth and men(atom):
            return True
        # is_ok(send(..)) form
        if atom[0] == "call" and atom[1].endswith("Result::is_ok") and tr is truth and mir.has_call(atom, callee_re) and men(atom):
            return True
    return False


def run(P, C, tier):
    C.explanation = (
        "Static decision of the pairing clauses of the lock service and of its clients. Fairness and eventual grant over request "
        "sequences are a finite-state exploration (another technique family) and are not decided. Decided: the bookkeeping that "
        "makes exclusivity and the bound hold (a room enters `locked` only when absent and after a successful grant message, "
        "together with the decrement; the increment only when a held room is released; grants per request bounded by the "
        "available count), release on every exit of a synchronisation task, and release of everything a connection holds or "
        "was granted when it ends.")
    C.rule("R1", "locked.insert(room) is control-dependent on !locked.contains(room) and on reply.send(room).is_ok(), and is followed by avalaible -= 1; avalaible += 1 only when locked.remove(room) is true; grant attempts per request are bounded by avalaible")
    C.rule("R2", "in the task spawned by process_acquired_room, lock_service.unlock(room) is reached on every path after synchronise_room (Ok and Err)")
    C.rule("R3", "when a connection ends, every room in acquired_lock and every grant still queued in lock_receiver is released; a room is released by exactly one party")
    try:
        aq = P.body("RoomLockService::acquire_lock::{closure#0}")
        st = [x for x in P.bodies.values() if x.id.startswith("synchronisation::room_locking_service::RoomLockService::start::") and x.kind.startswith("Coroutine")]
        if len(st) != 1:
            raise mir.MissingAnchor("lock service loop: %d" % len(st))
        st = st[0]
    except mir.MissingAnchor as e:
        C.anchor_missing("R1", "lock service", e)
        return
    C.saw(aq), C.saw(st)
    try:
        # the counter of free slots: the `&mut usize` argument of acquire_lock, and in the service loop the usize
        # variable handed to it
        AV_AQ = aq.the_local("the counter of available locks (acquire_lock)", ty=r"^&mut usize$", arg=True)
        acalls = st.calls_to(r"RoomLockService::acquire_lock$")
        avs = {field_path(st.call_args(bi)[3]) for bi, t in acalls}
        if len(avs) != 1:
            raise mir.MissingAnchor("the counter handed to acquire_lock: %s" % sorted(avs))
        AV_ST = avs.pop()
        FLAG = aq.the_local("the `granted` flag of acquire_lock", ty=r"^bool$", const=True)
    except mir.MissingAnchor as e:
        C.anchor_missing("R1", "variables of the lock service", e)
        return
    LK = ("ty", LOCKED_TY)
    ins = [bi for bi, t in aq.calls_to(r"HashSet::insert$") if rooted(aq, aq.call_args(bi)[0], LOCKED_TY)]
    C.ob("R1", "insert-sites", len(ins) == 1, aq.loc(), "one site adds to `locked`", nontrivial=False)
    subs = arith_sites(aq, "Sub", AV_AQ)
    for bi in ins:
        room = aq.call_args(bi)[1]
        absent = has_guard(aq, bi, r"HashSet::contains$", False, LK)
        granted = has_guard(aq, bi, r"UnboundedSender::send$", True, "reply")
        # same room in all three
        same = False
        for s, vals, term in aq.guards(bi):
            atom, tr = mir.cond_atoms(term, vals)
            c = mir.has_call(atom, r"HashSet::contains$")
            if c is not None and mir.strip(c[2][1]) == mir.strip(room):
                snd = None
                for s2, vals2, term2 in aq.guards(bi):
                    x = mir.has_call(term2, r"UnboundedSender::send$")
                    if x is not None:
                        snd = x
                same = snd is not None and mir.strip(snd[2][1]) == mir.strip(room)
        C.ob("R1", "insert:absent-and-granted", absent and granted and same, aq.loc(bi), "locked.insert(room) under !locked.contains(&room)=%s, reply.send(room).is_ok()=%s, same room=%s" % (absent, granted, same))
        dec = [sb for sb in subs if aq.dominates(bi, sb) and aq.must_pass(bi, [sb], aq.exits())]
        C.ob("R1", "insert:paired-decrement", len(dec) == 1, aq.loc(bi), "every path after the insert executes `*avalaible -= 1` once")
    for sb in subs:
        C.ob("R1", "decrement-only-with-insert", any(aq.dominates(bi, sb) for bi in ins), aq.loc(sb), "the counter is decremented only after a room was locked")
    # one grant per call: after the insert the inner loop is left and the peer loop is left
    # (lock_aquired => break) : from the insert, no second insert is reachable
    for bi in ins:
        flag = [l for l, n in aq.names.items() if n == FLAG]
        again = True
        if len(flag) == 1:
            r = set()
            for sx in aq.succs()[bi]:
                r |= aq.reachable_flag(sx, flag[0], None)
            again = bi in r
        C.ob("R1", "one-grant-per-call", not again, aq.loc(bi), "acquire_lock grants at most one room per call: with the `lock_aquired` flag tracked along the path, the insert is not reachable from itself")
    adds = arith_sites(st, "Add", AV_ST)
    rem = [bi for bi, t in st.calls_to(r"HashSet::remove$") if rooted(st, st.call_args(bi)[0], LOCKED_TY)]
    C.ob("R1", "release-sites", len(rem) == 1 and len(adds) == 1, st.loc(), "one release site, one increment", nontrivial=False)
    for ab in adds:
        ok = has_guard(st, ab, r"HashSet::remove$", True, LK)
        C.ob("R1", "increment-only-on-held-room", ok, st.loc(ab), "avalaible += 1 only on the true edge of locked.remove(&room): releasing a room that is not held changes nothing")
    # acquire_lock call sites
    for bi, t in st.calls_to(r"RoomLockService::acquire_lock$"):
        g = st.guards(bi, expand_vars=True)
        arm = None
        for s, vals, term in g:
            dv = mir.discr_variants(term, vals)
            if dv and term[2].endswith("SyncLockMessage") and len(dv[1]) == 1:
                arm = dv[1][0]
        if arm == "RequestLock":
            # inside `for _ in 0..avail_iter` with avail_iter = avalaible
            bounded = False
            for s, vals, term in g:
                c = mir.has_call(term, r"::next$")
                if c is not None:
                    rng = mir.has_call(term, r"::into_iter$")
                    src = rng[2][0] if rng else None
                    if src is not None and src[0] == "aggr" and src[2].endswith("Range") and any(field_path(x) == AV_ST for x in [y for z in mir.subterms(src) if z[0] in ("var", "param", "upvar", "field", "deref") for y in ([z] + (st.var_defs(z) if z[0] == "var" else []))]):
                        bounded = True
            C.ob("R1", "grants-bounded:RequestLock", bounded, st.loc(bi), "grant attempts are made inside `for _ in 0..avalaible` (copied before the loop)")
        elif arm == "Unlock":
            ok = has_guard(st, bi, r"HashSet::remove$", True, LK) and any(st.dominates(ab, bi) for ab in adds)
            C.ob("R1", "grants-bounded:Unlock", ok, st.loc(bi), "one grant attempt, only after a held room was released and the counter incremented")
        else:
            # one loop after the match: `let attempts = match msg { RequestLock.. => avalaible, Unlock.. => if released { 1 } else { 0 } };
            # for _ in 0..attempts { acquire_lock(..) }` -- every value the bound can take is one of the two budgets above
            okb = False
            det = "acquire_lock called outside a message arm"
            for s, vals, term in st.guards(bi, expand_vars=False):
                term = st.switch_term(s, expand_vars=False)
                nx = mir.has_call(term, r"::next$")
                if nx is None:
                    continue
                rng = mir.has_call(term, r"::into_iter$")
                itv = mir.strip_refs(nx[2][0]) if nx[2] else ("unknown",)
                if rng is None and itv[0] == "var":
                    for d_ in st.var_defs(itv):     # `for` keeps its iterator in a variable: one step back, the bound stays a variable
                        rng = rng or mir.has_call(d_, r"::into_iter$")
                src = mir.strip_refs(rng[2][0]) if rng else None
                if src is None or src[0] != "aggr" or not src[2].endswith("Range") or len(src[4]) < 2:
                    continue
                end = mir.strip_refs(src[4][1])
                if end[0] != "var" or len(end) < 3:
                    continue
                vals_ok = []
                for (dbi, dsi, drv, dlhs) in st.defs().get(end[2], ()):
                    if dbi not in st.live_blocks() or len(dlhs) != 1:
                        continue
                    dt = mir.strip_refs(st.def_term(dbi, dsi, drv, 0))
                    alts = dt[1] if dt[0] == "phi" else [dt]
                    for a_ in alts:
                        a_ = mir.strip_refs(a_)
                        if a_[0] == "const" and a_[1] == 0:
                            vals_ok.append(True)
                        elif a_[0] == "const" and a_[1] == 1:
                            vals_ok.append(has_guard(st, dbi, r"HashSet::remove$", True, LK) and any(st.dominates(ab, dbi) for ab in adds))
                        else:
                            vals_ok.append(any(field_path(y) == AV_ST for z in mir.subterms(a_) if z[0] in ("var", "param", "upvar", "field", "deref")
                                               for y in ([z] + (st.var_defs(z) if z[0] == "var" else []))))
                okb = bool(vals_ok) and all(vals_ok)
                det = "one loop `for _ in 0..n` after the match; every value of n is the free-slot count, 0, or 1 after a held room was released: %s" % vals_ok
            C.ob("R1", "grants-bounded:?", okb, st.loc(bi), det)
    # ---- R2
    try:
        tasks = [x for x in P.bodies.values() if x.id.startswith("synchronisation::peer_inbound_service::LocalPeerService::process_acquired_room::") and x.calls_to(r"LocalPeerService::synchronise_room$")]
        if len(tasks) != 1:
            raise mir.MissingAnchor("synchronisation task: %d" % len(tasks))
        tk = tasks[0]
        C.saw(tk)
        sr = tk.calls_to(r"LocalPeerService::synchronise_room$")[0][0]
        ul = [bi for bi, t in tk.calls_to(r"RoomLockService::unlock$")]
        # accepted idiom: the unlock is skipped only on the edge where the room is no longer in acquired_lock
        # (the connection cleanup took it and released it itself)
        skip = set()
        for sb in sorted(tk.live_blocks()):
            tt = tk.blocks[sb]["t"]
            if tt["k"] != "switch":
                continue
            term = tk.switch_term(sb, expand_vars=True)
            if term[0] != "discr" and mir.has_call(term, r"HashSet::remove$"):
                for tg, vals in rights.switch_edges(tk, sb):
                    if mir.cond_atoms(term, vals)[1] is False:
                        skip.add((sb, tg))
        r = tk.reach_after(sr, avoid_blocks=ul, avoid_edges=skip)
        ok = bool(ul) and not (r & set(tk.exits()))
        same = all(tk.origin(tk.call_args(u)[1]) == tk.origin(tk.call_args(sr)[0]) for u in ul)
        C.ob("R2", "unlock-on-every-exit", ok and same, tk.loc(ul[0]) if ul else tk.loc(), "every path from synchronise_room(room) to the end of the task calls lock_service.unlock(room): %s, same room: %s" % (ok, same))
        # holder bookkeeping
        insb = [bi for bi, t in tk.calls_to(r"HashSet::insert$")]
        remb = [bi for bi, t in tk.calls_to(r"HashSet::remove$")]
        C.ob("R2", "held-set-bookkeeping", len(insb) == 1 and len(remb) == 1 and tk.dominates(insb[0], sr) and tk.must_pass(sr, remb, tk.exits()), tk.loc(),
             "acquired_lock holds the room for the whole task (insert before, remove on every exit)")
        # exclusive release: the task's unlock is conditional on the room still being listed as held
        cond = False
        for u in ul:
            for s, vals, term in tk.guards(u, expand_vars=True):
                atom, tr = mir.cond_atoms(term, vals)
                if mir.has_call(atom, r"HashSet::remove$") and tr is True:
                    cond = True
        task_conditional = cond
    except mir.MissingAnchor as e:
        C.anchor_missing("R2", "process_acquired_room", e)
        task_conditional = False
    # ---- R3
    try:
        sts = [x for x in P.bodies.values() if x.id.startswith("synchronisation::peer_inbound_service::LocalPeerService::start::") and x.calls_to(r"LocalPeerService::cleanup$")]
        if len(sts) != 1:
            raise mir.MissingAnchor("connection task: %d" % len(sts))
        s = sts[0]
        C.saw(s)
        cl = s.calls_to(r"LocalPeerService::cleanup$")[0][0]
        handlers = [bi for bi, t in s.calls_to(r"LocalPeerService::(process_remote_event|process_local_event|process_acquired_room)$")]
        ok = bool(handlers) and all(s.must_pass(h, [cl], s.exits()) for h in handlers)
        C.ob("R3", "cleanup-on-every-loop-exit", ok, s.loc(cl), "every path from the event loop to the end of the connection task passes cleanup(..)")
        # which collections feed the list handed to cleanup (identified as cleanup's argument, not by name)
        ROOMS = field_path(s.call_args(cl)[1])
        HELD_TY = r"Mutex<HashSet<\[u8; 16\]>>"
        lock_calls = [b2 for b2, t2 in s.calls_to(r"Mutex.*::lock$") if re.search(HELD_TY, s.cpath(s.call_args(b2)[0]))]
        feeds = set()
        held = False
        for bi, t in s.calls_to(r"Vec::push$"):
            a = s.call_args(bi)
            if field_path(a[0]) != ROOMS:
                continue
            feeds.add(s.cpath(a[1]))
            terms, bars = mir.flow_sources(s, a[1], r"Mutex.*::lock$")
            coll = mir.elem_collection(s, mir.strip(a[1])) if mir.strip(a[1])[0] == "var" else None
            if bars and lock_calls and coll is not None and rooted(s, coll, r"HashSet<\[u8; 16\]>"):
                held = True
        if not held and lock_calls:
            # `let rooms: Vec<Uid> = guard.drain().collect()`: the list itself is produced from the locked set
            rv_ = mir.strip(s.call_args(cl)[1])
            terms, bars = mir.flow_sources(s, rv_, r"Mutex.*::lock$")
            if bars and any(n.endswith("::collect") or n.endswith("::extend") or n.endswith("from_iter") for n in terms):
                held = True
                feeds.add("collect(locked set)")
        C.ob("R3", "held-rooms-released", held, s.loc(cl), "cleanup receives the rooms of the connection's held set (Mutex<HashSet<Uid>>): sources of the list %s" % sorted(feeds))
        drain_calls = [bi for bi, t in s.calls_to(r"UnboundedReceiver::try_recv$") if cl in s.reach_after(bi)]
        feeds_from_queue = False
        for bi, t in s.calls_to(r"Vec::push$"):
            a = s.call_args(bi, expand_vars=True)
            if field_path(s.call_args(bi)[0]) == ROOMS and mir.has_call(a[1], r"UnboundedReceiver::try_recv$"):
                feeds_from_queue = True
        C.ob("R3", "queued-grants-released", bool(drain_calls) and feeds_from_queue, s.loc(cl),
             "grants already sent by the lock service but still queued in lock_receiver when the loop ends are drained into the released rooms (drain sites: %d)" % len(drain_calls))
        # exactly one releasing party
        cleanup_takes = False
        for bi, t in s.calls_to(r"HashSet::(drain|clear|remove|take)$"):
            recv = s.call_args(bi)[0]
            terms, bars = mir.flow_sources(s, recv, r"Mutex.*::lock$")
            if cl in s.reach_after(bi) and bars and lock_calls:
                cleanup_takes = True
        C.ob("R3", "double-release", task_conditional and cleanup_takes, s.loc(cl),
             "a room whose task is still running is released by cleanup and again by the task; the lock service identifies a lock by room only, so the "
             "second unlock can release another connection's grant. Required: cleanup takes the rooms out of acquired_lock and the task unlocks only "
             "if it still finds its room there (task conditional=%s, cleanup takes=%s)" % (task_conditional, cleanup_takes))
    except mir.MissingAnchor as e:
        C.anchor_missing("R3", "LocalPeerService::start", e)
    r4_reply_channel(P, C)


def r4_reply_channel(P, C):
    C.rule("R4", "every requested room is granted to the connection that asked for it: on every path of the RequestLock arm the request's reply channel is stored in the "
                 "circuit's pending entry (a new entry, or the existing entry's channel replaced) before grants are attempted -- an entry that keeps the channel of "
                 "an earlier, possibly ended, connection of the same circuit sends the grants of the living connection into a closed channel and drops them")
    start = None
    for b in P.find(r"RoomLockService::start::\{closure#0\}$"):
        start = b
    if start is None:
        C.anchor_missing("R4", "RoomLockService::start", mir.MissingAnchor("service loop of the lock service not found"))
        return
    b = start
    C.saw(b)
    # arm entry: the RequestLock edge of the match on the received message
    arm = None
    for sb in sorted(b.live_blocks()):
        t = b.blocks[sb]["t"]
        if t["k"] != "switch":
            continue
        term = b.switch_term(sb, expand_vars=True)
        if term[0] == "discr" and term[2].endswith("SyncLockMessage"):
            table = dict(term[3])
            for v, tg in t["targets"]:
                if table.get(v) == "RequestLock":
                    arm = tg
            if arm is None and "RequestLock" in table.values() and len(table) == 2:
                arm = t["otherwise"]
    grants = [bi for bi, t in b.calls_to(r"RoomLockService::acquire_lock$")]
    if arm is None or not grants:
        C.ob("R4", "reply-channel-stored-on-every-path", False, b.loc(), "RequestLock arm or grant attempts not found (arm=%s, grants=%d)" % (arm, len(grants)))
        return
    in_arm = [g for g in grants if g in b.reachable(arm, avoid_blocks=set())]
    # the stores of the reply channel: `<entry>.reply = <payload>` or a PeerLockRequest literal carrying the payload
    stores = set()
    for bi in b.live_blocks():
        for si, st in enumerate(b.blocks[bi]["s"]):
            rv = st["rv"]
            t = None
            if st["lhs"][-1:] == [".reply"] and len(st["lhs"]) > 1:
                t = b.def_term(bi, si, rv, 0, expand_vars=True)
            elif rv["r"] == "aggr" and (rv.get("adt") or "").endswith("PeerLockRequest"):
                lit = b.def_term(bi, si, rv, 0, expand_vars=True)
                for fname, op in zip(lit[5], lit[4]):
                    if fname == "reply":
                        t = op
            if t is None:
                continue
            # the stored value is the message's channel (payload of the RequestLock variant)
            if any(s[0] == "downcast" and s[2] == "RequestLock" for s in mir.subterms(t)) or "UnboundedSender" in b.root_type(mir.strip(t)):
                stores.add(bi)
    first_grant = [g for g in in_arm]
    r = b.reachable(arm, avoid_blocks=stores)
    missed = [g for g in first_grant if g in r]
    C.ob("R4", "reply-channel-stored-on-every-path", bool(stores) and bool(first_grant) and not missed, b.loc(arm),
         "%d store site(s) of the reply channel; grant attempts reachable in the RequestLock arm without passing one: %s" % (len(stores), [b.loc(g) for g in missed] or "none"))
