"""C16 — concurrent mutations of one row do not lose acknowledged changes (necessary condition)."""
import re
import mir
import sql
from mir import term_str, strip_refs, callee_name, field_path


def run(P, C, tier):
    C.explanation = (
        "The outcome over interleavings is not computed. A read-modify-write of a row is safe only if (a) the read of the "
        "current version and the write run in the same serialised actor, or (b) the UPDATE is conditional on the version that "
        "was read and a missed update is detected, or (c) a per-row lock spans both. The rule computes the execution context "
        "of both ends from the call graph (which closure is handed to which executor) and inspects the UPDATE statement; if "
        "none of the three mechanisms is present, acknowledged field assignments can be lost: reported as a known finding.")
    C.rule("R1", "the row read of a mutation (Node::get_with_entity under MutationQuery::execute) and the row UPDATE (Node::write) are serialised by one of: same actor, version-conditional UPDATE with changed-row check, per-row lock")
    C.rule("R2", "facts the verdict rests on: the read runs on the reader pool (parallelism > 1 threads), the write on the single writer thread, the stream API pipelines requests")
    try:
        ex = P.body("mutation_query::MutationQuery::execute")
        nw = P.body("node::Node::write")
        pbw = P.body("BufferedDatabaseWriter::process_batch_write")
        rd = P.body("node::Node::get_with_entity")
    except mir.MissingAnchor as e:
        C.anchor_missing("R1", "mutation pipeline", e)
        return
    C.saw(ex), C.saw(nw), C.saw(pbw), C.saw(rd)
    reach_ex = P.reachable_from([ex.id])
    reads_row = rd.id in reach_ex
    C.ob("R2", "mutation-reads-current-version", reads_row, ex.loc(), "MutationQuery::execute reaches Node::get_with_entity (the row is read to build the new version)")
    # who runs MutationQuery::execute
    ctx = set()
    for b, bi, t in P.call_sites(r"MutationQuery::execute$"):
        C.saw(b)
        # the closure is an argument of send_async?
        par = P.bodies.get(b.parent)
        handed = None
        if par is not None:
            for pb, pt in par.live_calls():
                for a in par.call_args(pb):
                    for s in mir.subterms(a):
                        if s[0] == "aggr" and s[1] == "closure" and s[2] == b.id:
                            handed = callee_name(pt)
        ctx.add((mir.short(P.owner_fn(b.id)), handed or "-"))
    on_pool = bool(ctx) and all("DatabaseReader::send_async" in (h or "") or "Box::new" in (h or "") for _, h in ctx)
    C.ob("R2", "read-on-reader-pool", on_pool, "", "MutationQuery::execute is called only from closures sent to the reader pool: %s" % sorted(ctx))
    # pool width
    try:
        rs = P.body("sqlite_database::DatabaseReader::start")
        spawns = [bi for bi, t in rs.calls_to(r"thread::spawn$|Builder::spawn$")]
        from rules.rights import enclosing_loop_header
        looped = any(enclosing_loop_header(rs, s) is not None for s in spawns)
        C.ob("R2", "reader-pool-is-parallel", bool(spawns) and looped, rs.loc(), "reader threads are spawned in a loop over the configured parallelism")
    except mir.MissingAnchor as e:
        C.anchor_missing("R2", "DatabaseReader::start", e)
    write_in_writer = nw.id in P.reachable_from([pbw.id])
    C.ob("R2", "write-on-writer-thread", write_in_writer, pbw.loc(), "Node::write is reached from process_batch_write")
    # (a) same actor
    same_actor = ex.id in P.reachable_from([pbw.id])
    # (b) conditional update
    upd = [sql.norm(t) for _, _, t, _, _ in sql.statements(nw) if t and re.search(r"UPDATE\s+_node\b", t, re.I)]
    conditional = any(re.search(r"WHERE\s+rowid\s*=\s*\?\s+AND\s+(mdate|_signature)\s*=\s*\?", t, re.I) for t in upd)
    checked = False
    for bi, t in nw.calls_to(r"Statement.*::execute$"):
        # the number of changed rows is compared
        for sb in nw.live_blocks():
            tt = nw.blocks[sb]["t"]
            if tt["k"] == "switch":
                term = nw.switch_term(sb, expand_vars=True)
                if term[0] == "bin" and any(s[0] == "call" and s[3] == bi for s in mir.subterms(term)):
                    checked = True
    # (c) per-row lock: a lock keyed by the row id held across read and write
    row_lock = False
    for b in P.bodies.values():
        if b.file.endswith("mutation_query.rs") or b.file.endswith("graph_database.rs"):
            for bi, t in b.calls_to(r"(Mutex|RwLock).*::lock$|row_lock|RowLock"):
                if mir.mentions(b.call_args(bi)[0], "row") or mir.mentions(b.call_args(bi)[0], "node_lock"):
                    row_lock = True
    C.floor("R1", "UPDATE _node statements", len(upd), 1)
    C.ob("R1", "lost-update", same_actor or (conditional and checked) or row_lock, nw.loc(),
         "serialisation of read and write of one row: same actor=%s, UPDATE conditional on the read version=%s with changed-row check=%s, per-row lock=%s -- two in-flight "
         "mutations of one row both read version v, both are acknowledged, the second UPDATE overwrites the first one's other fields" % (same_actor, conditional, checked, row_lock))
    r3_room_definitions(P, C, "R3")
    r4_noop_writes_nothing(P, C, "R4")


def r3_room_definitions(P, C, R, announce=False):
    """clause that holds today: changes of a room DEFINITION in flight together are serialised by the authorisation actor"""
    from rules.c01 import arm_of
    C.rule(R, "pipelined or concurrent mutations of one room definition are applied one after another: when the writer reports the commit, the authorisation actor "
                 "computes the room it installs from the mutation and the CURRENT in-memory room (validate_mutation in the same arm), never from a room computed "
                 "before the write was queued (two in-flight mutations would both derive from the same old room and the later install would drop the earlier change)")
    try:
        pm = P.body("AuthorisationService::process_message::{closure#0}")
    except mir.MissingAnchor as e:
        C.anchor_missing(R, "process_message", e)
        return
    C.saw(pm)
    n = 0
    for bi, t in pm.calls_to(r"RoomAuthorisations::add_room$"):
        arm = arm_of(pm, bi)
        if arm not in ("RoomMutationWrite", "RoomMutationStreamWrite"):
            continue
        n += 1
        g = pm.guards(bi, expand_vars=True)
        revalidated = False
        for s, vals, term in g:
            dv = mir.discr_variants(term, vals)
            if dv and dv[1] == ["Ok"] and mir.has_call(dv[0], r"RoomAuthorisations::validate_mutation$") is not None:
                # the validation is made in this arm (after the commit was reported), on the actor's own state
                vc = mir.has_call(dv[0], r"RoomAuthorisations::validate_mutation$")
                revalidated = arm_of(pm, vc[3]) == arm
        # the installed room is an element of that validation's result
        room_arg = pm.call_args(bi, expand_vars=True)[1]
        from_validation = mir.has_call(room_arg, r"RoomAuthorisations::validate_mutation$") is not None
        if not from_validation:
            # `for room in rooms { add_room(room.clone()) }` with `rooms` the Ok payload of the validation
            for sx in mir.subterms(room_arg):
                if sx[0] == "var" and len(sx) > 2:
                    col = mir.elem_collection(pm, sx)
                    if col is not None:
                        colx = pm.local_term(col[2], 0, True) if col[0] == "var" and len(col) > 2 else col
                        if mir.has_call(colx, r"RoomAuthorisations::validate_mutation$") is not None:
                            from_validation = True
        C.ob(R, "room-recomputed-at-commit:%s" % arm, revalidated and from_validation, pm.loc(bi),
             "add_room installs %s" % ("the result of validate_mutation evaluated in the %s arm against the actor's current rooms" % arm if revalidated and from_validation else
                                       "a room that was computed before the write was queued (carried in the write message): acknowledged changes of a concurrently committed mutation of the same room are overwritten in memory"))
    C.floor(R, "room installs after a committed room mutation", n, 2)


def r4_noop_writes_nothing(P, C, R):
    """The row of an update is rewritten WHOLE from the copy read on the reader pool (known finding R1): every mutation that rewrites
    a row can erase a concurrent acknowledged assignment. A mutation that changes nothing must therefore not rewrite the row: the
    `changed` flag that decides `node = None` may be raised only where a change was recorded in the same step (an edge pushed to
    edge_insertions / edge_deletions, a value inserted in the JSON object), or under a test that something exists to change."""
    C.rule(R, "a mutation that changes nothing writes nothing: in get_mutate_query every `changed = true` follows, in the same arm, a recorded change "
              "(Vec::push of an edge insertion/deletion, insert of a field value) or is guarded by a non-emptiness test; otherwise a no-op "
              "(`field: null` on an empty reference) rewrites the whole row from its earlier read and erases a concurrent acknowledged assignment")
    try:
        b = P.body("MutationQuery::get_mutate_query")
    except mir.MissingAnchor as e:
        C.anchor_missing(R, "get_mutate_query", e)
        return
    C.saw(b)
    # the flag: the bool variable whose `false` guards `node_to_mutate.node = None`
    flag = None
    for bi in sorted(b.live_blocks()):
        for si, st in enumerate(b.blocks[bi]["s"]):
            rv = st["rv"]
            dt = mir.strip_refs(b.def_term(bi, si, rv, 0)) if st["lhs"][-1:] == [".node"] else ("unknown",)
            if dt[0] == "aggr" and dt[3] == "None":
                for s_, vals, term in b.guards(bi):
                    atom, truth = mir.cond_atoms(term, vals)
                    atom = mir.strip_refs(atom)
                    if atom[0] == "var" and len(atom) > 2 and b.locals[atom[2]] == "bool" and truth is False:
                        flag = atom[2]
    if flag is None:
        C.ob(R, "noop-flag", False, b.loc(), "no boolean whose false value leads to `node = None` (the row of an unchanged update is not written)")
        return
    change_ops = [bi for bi, t in b.live_calls() if re.search(r"Vec<.*>::push$|Vec::push$|Map<.*>::insert$|Map::insert$|::insert$", callee_name(t))
                  and re.search(r"edge_insertions|edge_deletions|serde_json|Map<", term_str(b.call_args(bi, expand_vars=True)[0]) + " " + callee_name(t))]
    n = 0
    for (bi, si, rv, lhs) in b.defs().get(flag, ()):
        if bi not in b.live_blocks() or si is None or len(lhs) != 1:
            continue
        if not (rv["r"] == "use" and "k" in rv["o"] and rv["o"]["k"].get("v") is True):
            continue
        n += 1
        doms = b.dom_chain(bi)
        follows = [c for c in change_ops if c in doms and c != bi]
        guarded = False
        for s_, vals, term in b.guards(bi, expand_vars=True):
            atom, truth = mir.cond_atoms(term, vals)
            ts = term_str(atom)
            if re.search(r"is_empty", ts) and truth is False or (atom[0] == "bin" and atom[1] in ("Gt", "Ne", "Lt") and re.search(r"len\(", ts) and truth is True):
                guarded = True
        ok = bool(follows) or guarded
        C.ob(R, "changed-flag#%d" % (n - 1), ok, b.loc(bi), "raised after a recorded change in the same arm: %s; under a non-emptiness test: %s%s" % (
            [b.loc(c) for c in follows[:2]] or "no", guarded, "" if ok else " -- raised although nothing may have changed: the row is rewritten from its earlier read"))
    C.floor(R, "assignments of the changed flag", n, 4)
