"""C06 — a signature binds exactly one row and only its author can produce it."""
import os
import re
import facts
import mir
import sql
from mir import short
from mir import term_str, strip_refs, callee_name, field_path, full_path

# digest function -> (struct whose serialised fields must be covered, receiver/param prefix -> struct field mapping)
DIGESTS = {
    "node": {"fns": ["database::node::Node::hash"], "adt": "database::node::Node", "sig": "_signature"},
    "edge": {"fns": ["database::edge::Edge::hash"], "adt": "database::edge::Edge", "sig": "signature"},
    "node-deletion": {"fns": ["database::node::NodeDeletionEntry::sign", "database::node::NodeDeletionEntry::verify"], "adt": "database::node::NodeDeletionEntry", "sig": "signature"},
    "edge-deletion": {"fns": ["database::edge::EdgeDeletionEntry::sign", "database::edge::EdgeDeletionEntry::verify"], "adt": "database::edge::EdgeDeletionEntry", "sig": "signature"},
}
CANON = {"_entity": "entity"}


def skipped_fields(P, adt):
    """fields carrying #[serde(skip)] (derive helper attributes are not in HIR: read from the source text)"""
    a = P.adts[adt]
    path = a["span"][0]
    if not os.path.isabs(path):
        path = os.path.join(facts.REPO if "repo_root" not in P.facts else P.facts["repo_root"], path)
    try:
        lines = open(path).read().split("\n")
    except OSError:
        return set()
    out = set()
    prev = a["span"][1]
    for f in a["variants"][0]["fields"]:
        seg = "\n".join(lines[prev:f["line"]])
        if re.search(r"#\[serde\(\s*skip", seg):
            out.add(f["name"])
        prev = f["line"]
    return out


def canon(name):
    name = name.split(".")[-1]
    return CANON.get(name, name).lstrip("_")


def param_field_map(P, b, adt_path):
    """for a digest function that takes the row's parts as parameters (`sign(room, node, date, key, ..)`): which struct
    field each parameter (or field of a parameter) ends up in, read from the caller that signs and then builds the struct
    literal (`build`): sign's i-th argument and the literal's operand are the same variable / the same field of it."""
    out = {}
    pnames = {l: n for l, n, lty, leaf in b.named_locals() if leaf[0] == "param"}
    for cb, bi, t in P.call_sites(re.escape(mir.normalize(b.id)) + "$"):
        lit = None
        for bj in cb.live_blocks():
            for sj, st in enumerate(cb.blocks[bj]["s"]):
                rv = st["rv"]
                if rv["r"] == "aggr" and rv.get("adt") == adt_path:
                    lit = cb.def_term(bj, sj, rv, 0)
        if lit is None:
            continue
        args = [mir.strip(a) for a in cb.call_args(bi)]
        for fname, op in zip(lit[5], lit[4]):
            o = mir.strip(op)
            chain = []
            while o[0] == "field":
                chain.append(o[2])
                o = mir.strip(o[1])
            if o[0] not in ("var", "param"):
                continue
            for i, a in enumerate(args):
                if a[:3] == o[:3] and (i + 1) in pnames:
                    out[".".join([pnames[i + 1]] + list(reversed(chain)))] = fname
    return out


def segments(b, adt=None, pmap=None):
    """ordered digest input: [(canonical field, kind F/V/K, optional?, line, type, path)]; the width class comes
    from the type of the struct field the operand reads (type facts)"""
    ftypes = {}
    if adt is not None:
        for f in adt["variants"][0]["fields"]:
            ftypes[canon(f["name"])] = f["ty"]
    out = []
    for bi, t in sorted(b.calls_to(r"blake3::Hasher::update$"), key=lambda x: b.line_of(x[0])):
        a = b.call_args(bi, expand_vars=True)[1]
        le = mir.has_call(a, r"::to_le_bytes$")
        name = field_path(le[2][0]) if le is not None else field_path(a)
        opt = False
        for s, vals, term in b.guards(bi):
            dv = mir.discr_variants(term, vals)
            if dv and dv[1] == ["Some"]:
                opt = True
        if pmap and name in pmap:
            name = pmap[name]
        cn = canon(name)
        ty = ftypes.get(cn, "")
        if le is not None or re.search(r"^(std::option::Option<)?\[u8; ?(\d+|UID_SIZE)\]>?$", ty) or ty in ("i64", "u64", "i32", "u32"):
            kind = "F"
        elif cn == "verifying_key":
            kind = "K"   # length enforced by import_verifying_key on the verification path
        else:
            kind = "V"
        out.append((cn, kind, opt, b.line_of(bi), ty, name))
    return out


def run(P, C, tier):
    C.explanation = (
        "Static decision of the structure of the four signed digests and of the raw signing service. From the MIR of each "
        "digest function the ordered list of Hasher::update operands is recovered with the field it reads, its type "
        "(fixed/variable width) and whether it is conditional; this list is compared with the serialised fields of the "
        "struct (type facts), between sign and verify, and tested for unique decodability and for a leading kind tag. The "
        "call graph of the signing service shows which bytes each caller submits. Cryptographic strength is not decided.")
    C.rule("R1", "each digest feeds every serialised field of its struct except the signature")
    C.rule("R2", "sign and verify feed the same ordered (field, encoding) list; node/edge sign and verify call the same hash()")
    C.rule("R3", "the concatenation is uniquely decodable: at most one variable-width or optional segment without a length/presence prefix")
    C.rule("R4", "each digest starts with a constant tag distinct per kind")
    C.rule("R5", "the raw signing service signs only digests computed locally over locally chosen data")
    C.rule("R7", "each digest input is an injective image of the stored field (no parsing / normalising step between the field and Hasher::update)")
    C.rule("R6", "a Node handed to the generic write channel for a room was signed in the same function (or comes from a verified batch)")
    seqs = {}
    for kind, spec in DIGESTS.items():
        adt = P.adts.get(spec["adt"])
        if adt is None:
            C.anchor_missing("R1", spec["adt"], "struct not found")
            continue
        skip = skipped_fields(P, spec["adt"])
        want = {canon(f["name"]) for f in adt["variants"][0]["fields"] if f["name"] not in skip and f["name"] != spec["sig"]}
        per_fn = {}
        for fn in spec["fns"]:
            try:
                b = P.body(fn)
            except mir.MissingAnchor as e:
                C.anchor_missing("R1", fn, e)
                continue
            C.saw(b)
            seg = segments(b, adt, param_field_map(P, b, spec["adt"]) if "self" not in [n for l, n, lty, lf in b.named_locals() if lf[0] == "param"] else None)
            per_fn[fn] = seg
            fed = {s[0] for s in seg}
            role = fn.split("::")[-1]
            for f in sorted(want):
                C.ob("R1", "%s:%s:%s" % (kind, role, f), f in fed, b.loc(), "field `%s` of %s is part of the signed digest" % (f, spec["adt"].split("::")[-1]))
            extra = fed - want
            C.ob("R1", "%s:%s:no-foreign-input" % (kind, role), not extra, b.loc(), "digest inputs outside the struct: %s" % (sorted(extra) or "none"), nontrivial=False)
            # finalize is reached from every update (one digest)
            C.ob("R1", "%s:%s:finalized" % (kind, role), len(b.calls_to(r"blake3::Hasher::finalize$")) == 1, b.loc(), "one finalize", nontrivial=False)
        # ---- R7: each digest input is an injective image of the stored field
        INJECTIVE = r"(::as_bytes$|::to_le_bytes$|::to_be_bytes$|Deref>::deref$|::as_ref$|::as_slice$|::as_str$|serde_json::to_string$|serde_json::ser::to_string$|Try>::branch$|::borrow$|::clone$|AsRef<.*>::as_ref$)"
        for fn in spec["fns"]:
            b = P.body(fn, required=False)
            if b is None:
                continue
            for bi, t in sorted(b.calls_to(r"blake3::Hasher::update$"), key=lambda x: b.line_of(x[0])):
                a = b.call_args(bi, expand_vars=True)[1]
                stray = sorted({mir.short(x[1]) for x in mir.subterms(a) if x[0] == "call" and not re.search(INJECTIVE, x[1])})
                raw = field_path(mir.has_call(a, r"::to_le_bytes$")[2][0]) if mir.has_call(a, r"::to_le_bytes$") is not None else field_path(a)
                pm = param_field_map(P, b, spec["adt"]) if "self" not in [n for l, n, lty, lf in b.named_locals() if lf[0] == "param"] else {}
                name = canon(pm.get(raw, raw))
                if name.startswith("<"):
                    # the root is a call that is not transparent: name the field by the first field access inside
                    flds = [x[2] for x in mir.subterms(a) if x[0] == "field" and not x[2].isdigit()]
                    name = canon(flds[0]) if flds else name
                C.ob("R7", "%s:%s:%s" % (kind, fn.split("::")[-1], name), not stray, b.loc(bi),
                     "the bytes fed for `%s` are the stored field through injective steps only (as_bytes, to_le_bytes, serde_json::to_string of the field itself)%s" % (
                         name, "" if not stray else "; through %s: two different stored values get the same digest (e.g. a parsed and re-serialised JSON text loses key order, duplicates and spacing)" % stray))
        seqs[kind] = per_fn
        # ---- R2
        if len(spec["fns"]) == 2 and len(per_fn) == 2:
            a, b2 = [[(s[0], s[1], s[2]) for s in per_fn[f]] for f in spec["fns"]]
            C.ob("R2", "%s:sign-verify-agree" % kind, a == b2, "", "sign feeds %s; verify feeds %s" % (a, b2))
        elif len(spec["fns"]) == 1 and per_fn:
            base = spec["fns"][0].rsplit("::", 1)[0]
            for role in ("sign", "verify"):
                fb = P.body(base + "::" + role, required=False)
                if fb is None:
                    C.anchor_missing("R2", base + "::" + role, "missing")
                    continue
                C.saw(fb)
                hs = fb.calls_to(re.escape(spec["fns"][0]) + "$")
                own = fb.calls_to(r"blake3::Hasher::update$")
                C.ob("R2", "%s:%s-uses-hash" % (kind, role), len(hs) == 1 and not own, fb.loc(), "%s computes the digest with the shared hash() only" % role)
        # ---- R3 / R4
        any_fn = next(iter(per_fn.values()), [])
        unknown = [(s[0], "optional" if s[2] else "variable") for s in any_fn if s[1] == "V" or s[2]]
        has_len = False
        for fn in per_fn:
            b = P.body(fn)
            for bi, t in b.calls_to(r"blake3::Hasher::update$"):
                a = b.call_args(bi, expand_vars=True)[1]
                if mir.has_call(a, r"::len$") is not None:
                    has_len = True
        ok = len(unknown) <= 1 or has_len
        C.ob("R3", "injective:" + kind, ok, P.body(spec["fns"][0]).loc(),
             "segments of unknown width without prefix: %s%s" % (unknown, "" if ok else " -- bytes can be moved across the boundary of adjacent fields (or an optional field dropped) without changing the digest"))
        first = any_fn[0] if any_fn else None
        tagged = False
        if first is not None:
            b = P.body(spec["fns"][0])
            bi0 = sorted(b.calls_to(r"blake3::Hasher::update$"), key=lambda x: b.line_of(x[0]))[0][0]
            a0 = strip_refs(b.call_args(bi0, expand_vars=True)[1])
            tagged = a0[0] == "const"
        seqs[kind + ":tagged"] = tagged
    C.ob("R4", "domain-tag", all(seqs.get(k + ":tagged") for k in DIGESTS), "",
         "every digest starts with a constant kind tag: %s -- a 32-byte digest of one kind can be presented as another kind, and as the message of the raw signing service" % {k: seqs.get(k + ":tagged") for k in DIGESTS})
    # ---- R5 raw signing service
    sites = P.call_sites(r"GraphDatabaseService::sign$")
    n5 = 0
    for b, bi, t in sites:
        owner = mir.short(P.owner_fn(b.id))
        n5 += 1
        a = b.call_args(bi, expand_vars=True)[1]
        terms, bars = mir.flow_sources(b, a, r"(::hash$|::hash_val$|blake3::|Hasher::finalize$)")
        peer = [x for x in mir.subterms(a) if x[0] == "downcast" and x[2] in ("ProveIdentity",)] or [x for x in terms if "msg" in x]
        local_digest = bool(bars) and not peer
        C.ob("R5", "sign-oracle:" + owner, local_digest, b.loc(bi),
             "bytes submitted to the signing service: %s%s" % (term_str(a)[:100], "" if local_digest else
             " -- chosen by the remote peer: any connected peer obtains this instance's signature over 32 bytes of its choice, e.g. the digest of a row"))
    C.floor("R5", "callers of the raw signing service", n5, 4)
    msg_sites = []
    for body in P.bodies.values():
        for bi in body.live_blocks():
            for st in body.blocks[bi]["s"]:
                rv = st["rv"]
                if rv["r"] == "aggr" and rv.get("variant") == "Sign" and rv.get("adt", "").endswith("AuthorisationMessage"):
                    msg_sites.append(mir.short(P.owner_fn(body.id)))
    C.ob("R5", "sign-message-constructors", set(msg_sites) <= {"GraphDatabaseService::sign"}, "", "AuthorisationMessage::Sign is built only by GraphDatabaseService::sign (found: %s)" % sorted(set(msg_sites)), nontrivial=False)
    # ---- R6 generic channel writes of Node values
    n6 = 0
    for b, bi, t in P.call_sites(r"BufferedDatabaseWriter::write$"):
        arg_op = t["args"][1]
        a = b.call_args(bi)[1]
        inner = mir.has_call(a, r"Box::new$")
        if inner is None:
            continue
        v = strip_refs(inner[2][0])
        if v[0] != "var":
            continue
        ty = b.locals[v[2]]
        if ty != "database::node::Node":
            continue
        n6 += 1
        owner = mir.short(P.owner_fn(b.id))
        signed = False
        for sb, stt in b.calls_to(r"database::node::Node::sign$"):
            ra = strip_refs(b.call_args(sb)[0])
            if ra[0] == "var" and ra[2] == v[2] and b.dominates(sb, bi):
                signed = True
        roomed = True
        C.ob("R6", "unsigned-room-row:" + owner, signed, b.loc(bi), "Node `%s` written through the generic channel %s" % (v[1], "after Node::sign" if signed else
             "WITHOUT a signature: the row is stored in a room and every peer's verification rejects it"))
    C.floor("R6", "Node values on the generic channel", n6, 1)
    # wrappers (Peer, AllowedPeer writers) sign their rows
    try:
        ia = P.body("system_entities::init_allowed_peers::{closure#0}")
        C.saw(ia)
        sg = ia.calls_to(r"database::(node::Node|edge::Edge)::sign$")
        ok = len(sg) >= 3 and all(mir.result_edges(ia, s[0]) is not None for s in sg)
        ws = ia.calls_to(r"BufferedDatabaseWriter::write$")
        ok = ok and all(any(ia.dominates(s[0], w[0]) for s in sg) for w in ws)
        C.ob("R6", "bootstrap-rows-signed", ok, ia.loc(), "init_allowed_peers signs the peer row, the allowed-peer row and its reference before writing them (%d sign calls)" % len(sg))
    except mir.MissingAnchor as e:
        C.anchor_missing("R6", "init_allowed_peers", e)
    r8_whole_row_writes(P, C)
    r9_strict_verification(P, C)
    r10_peer_row_gate(P, C, "R10")


SIGNED_TABLES = ("_node", "_edge", "_node_deletion_log", "_edge_deletion_log")


def _table_columns(P):
    """columns of the four signed tables, read from the constant CREATE TABLE texts of the crate"""
    cols = {}
    for b in P.bodies.values():
        for bi, callee, text, holes, term in sql.statements(b):
            if not text:
                continue
            for m in re.finditer(r"CREATE\s+TABLE\s+(\w+)\s*\((.*?)\)\s*(WITHOUT\s+ROWID\s*,\s*)?STRICT", text, re.I | re.S):
                t = m.group(1)
                if t in SIGNED_TABLES:
                    cs = []
                    for part in re.split(r",(?![^()]*\))", m.group(2)):
                        w = part.strip().split()
                        if w and w[0].upper() not in ("PRIMARY", "UNIQUE", "FOREIGN", "CHECK", "CONSTRAINT"):
                            cs.append(w[0])
                    cols[t] = cs
    return cols


def r8_whole_row_writes(P, C):
    C.rule("R8", "the signature verifies against the row exactly as stored only if a stored row is one signed row: every statement that writes one of the four "
                 "signed tables writes the complete row (all columns, no partial ON CONFLICT/UPDATE), and binds each column to the field of the same name of one object")
    cols = _table_columns(P)
    C.floor("R8", "signed table definitions", len(cols), 4)
    n = 0
    for b in sorted(P.bodies.values(), key=lambda x: x.id):
        if "::tests::" in b.id or "_test::" in b.id or "seeded_demo" in b.id:
            continue
        sts = [(bi, text) for bi, callee, text, holes, term in sql.statements(b) if text]
        for bi, text in sts:
            tx = sql.norm(text)
            m = re.match(r"(INSERT(\s+OR\s+REPLACE)?\s+INTO|REPLACE\s+INTO|UPDATE)\s+(\w+)", tx, re.I)
            if not m or m.group(3) not in SIGNED_TABLES:
                continue
            table = m.group(3)
            want = cols.get(table, [])
            n += 1
            if m.group(1).upper().startswith("UPDATE"):
                setpart = re.split(r"\bWHERE\b", re.split(r"\bSET\b", tx, flags=re.I)[1], flags=re.I)[0]
                written = re.findall(r"(\w+)\s*=\s*\?", setpart)
                partial = False
            else:
                mm = re.search(r"\(([^)]*)\)\s*VALUES", tx, re.I)
                written = [c.strip() for c in mm.group(1).split(",")] if mm else []
                partial = re.search(r"ON\s+CONFLICT.*DO\s+UPDATE", tx, re.I) is not None
            whole = sorted(written) == sorted(want) and not partial
            # the bound values: the tuple passed to execute/insert of the prepared statement, by position
            bound_ok = None
            detail_b = "no execute/insert of this statement found"
            if True:
                for qb, qt in b.calls_to(r"Statement.*::(execute|insert)$"):
                    recv = b.call_args(qb, expand_vars=True)[0]
                    pc = mir.has_call(recv, r"prepare(_cached)?$")
                    if pc is None or pc[3] != bi:
                        continue
                    qa = b.call_args(qb)
                    params = strip_refs(qa[1])
                    if params[0] != "aggr":
                        bound_ok = False
                        detail_b = "parameters are not a tuple of fields: %s" % term_str(params)[:80]
                        continue
                    items = params[4][:len(written)]
                    roots = set()
                    names_ok = True
                    for col, it in zip(written, items):
                        fp = field_path(strip_refs(it))
                        parts = fp.split(".")
                        roots.add(".".join(parts[:-1]))
                        if parts[-1].lstrip("_") != col.lstrip("_"):
                            names_ok = False
                    bound_ok = (bound_ok is not False) and names_ok and len(roots) == 1 and len(items) == len(written)
                    detail_b = "columns bound to %s" % [term_str(strip_refs(i)) for i in items]
            key = "whole-row:%s:%s#%d" % (table, short(b.id), len([1 for o in C.obligations if o["key"].startswith("C06/R8/whole-row:%s:%s#" % (table, short(b.id)))]))
            C.ob("R8", key, whole and bound_ok is True, b.loc(bi),
                 "`%s…` writes %d of the %d columns of %s%s; %s" % (tx[:40], len(set(written) & set(want)), len(want), table, " with a partial ON CONFLICT update" if partial else "", detail_b))
    C.floor("R8", "write statements on signed tables", n, 9)


def r9_strict_verification(P, C):
    C.rule("R9", "a signature binds exactly one row only under strict Ed25519 verification: every signature check of the crate goes through "
                 "ed25519_dalek::VerifyingKey::verify_strict (the cofactorless `verify` accepts small-order keys, e.g. the identity point with R = identity, s = 0, "
                 "for EVERY message: one signature valid for all rows)")
    sites = [(b, bi, t) for b, bi, t in P.call_sites(r"ed25519_dalek::.*(::verify|::verify_strict|::verify_prehashed\w*)$")
             if "::tests::" not in b.id and not b.blocks[bi]["cl"]]
    C.floor("R9", "ed25519 verification call sites", len(sites), 1)
    for n, (b, bi, t) in enumerate(sites):
        name = (t.get("nrf") or "") + " " + t["nf"]
        strict = re.search(r"::verify_strict$", t["nf"]) is not None or re.search(r"::verify_strict$", t.get("nrf") or "") is not None
        C.ob("R9", "strict-verification:%s#%d" % (short(b.id), n), strict, b.loc(bi),
             "%s calls %s" % (short(b.id), t["nf"]) + ("" if strict else " -- the non-strict check: the key [type, 0x01, 0x00 x31] with signature [0x01, 0x00 x63] verifies for any row content"))


def r10_peer_row_gate(P, C, R):
    """A peer row (sys.Peer) received in an identity proof or an invitation does not go through the batch verification service:
    Peer::validate is its only gate (C02-R1 and C19-R1 rely on it dominating the writes). The gate must verify the signature of
    the row it is given: no Ok return is reachable unless Node::verify was called on the parameter and answered Ok."""
    C.rule(R, "Peer::validate verifies the signature of the row: every path to Ok passes the Ok edge of Node::verify on the parameter, "
              "so a peer row received from the network is stored (and relayed) only with a signature that verifies against it")
    try:
        b = P.body("system_entities::Peer::validate")
    except mir.MissingAnchor as e:
        C.anchor_missing(R, "Peer::validate", e)
        return
    C.saw(b)
    row = b.the_local("the row under validation", ty=r"node::Node$", param=True)
    vs = [(bi, t) for bi, t in b.calls_to(r"database::node::Node::verify$") if mir.full_path(b, b.call_args(bi)[0]).split(".")[0] == row]
    oks = set(mir.return_assignments(b)["Ok"])
    avoid = set()
    tested = 0
    for bi, t in vs:
        re_ = mir.result_edges_any(b, bi)
        if re_ is None:
            # `peer.verify().map_err(|_| ..)?`: the mapped result carries the same Ok/Err
            for mi, mt in b.calls_to(r"Result<.*>::(map_err|or|or_else)$|Result::(map_err)$"):
                a0 = mir.strip_refs(b.call_args(mi, expand_vars=True)[0])
                if a0[0] == "call" and a0[3] == bi and callee_name(mt).endswith("map_err"):
                    re_ = mir.result_edges_any(b, mi)
        if re_ is not None and "ok" in re_:
            tested += 1
            avoid.add((re_["switch"], re_["ok"]))
    reach = b.reachable(0, avoid_edges=avoid) if avoid else set(b.live_blocks())
    leak = sorted(oks & set(reach))
    ok = bool(vs) and tested == len(vs) and bool(oks) and not leak
    C.ob(R, "peer-row-gate:verify", ok, b.loc(vs[0][0]) if vs else b.loc(),
         "%d call(s) of Node::verify on the parameter, %d with a tested result; Ok returns reachable without its Ok edge: %s%s" % (
             len(vs), tested, [b.loc(x) for x in leak] or "none",
             "" if ok else " -- a peer row with a signature that does not verify is accepted from an identity proof or an invitation, stored and relayed"))
