"""C13 — writes are atomic, acknowledged after commit, log repairable."""
import re
import mir
from mir import term_str, callee_name, strip_refs

PBW = "BufferedDatabaseWriter::process_batch_write"
# WriteMessage variants and whether their arm writes through the connection
WRITING = {"Deletion", "Mutation", "MutationStream", "Nodes", "Edges", "RoomMutation", "RoomMutationStream",
           "RoomNode", "Write", "ComputeDailyLog", "DeleteEdges", "DeleteNodes"}
NON_WRITING = {"Optimize": "only sets a flag; PRAGMA optimize runs after COMMIT"}


def exec_text(body, bi):
    a = body.call_args(bi)
    if len(a) > 1:
        u = mir.strip_refs(a[1])
        if u[0] == "const" and isinstance(u[1], str):
            return u[1].strip().upper()
    return None


def variant_guard(body, bi, adt):
    """the variant(s) of `adt` whose match arm contains block bi: one name, or `A+B` for an or-pattern arm (`A(q, _) | B(q, _) => ..`)"""
    for s, vals, term in body.guards(bi):
        dv = mir.discr_variants(term, vals)
        if dv and term[2] == adt and len(dv[1]) >= 1 and "otherwise" not in dv[1]:
            return "+".join(dv[1])
    # or-pattern arms bind their variables in one block per variant and join afterwards: no single edge guards the arm.
    # The arm's variants are those whose own edge reaches bi without passing the match again (and not all of them do)
    for sb in body.dom_chain(bi):
        t = body.blocks[sb]["t"]
        if t["k"] != "switch":
            continue
        term = body.switch_term(sb)
        if term[0] != "discr" or term[2] != adt:
            continue
        table = dict(term[3])
        edges = [(table.get(v), tg) for v, tg in t["targets"]]
        hit = [name for name, tg in edges if name and (tg == bi or bi in body.reachable(tg, avoid_blocks={sb}))]
        other_hits = t["otherwise"] is not None and t["otherwise"] not in [tg for _, tg in edges] and bi in body.reachable(t["otherwise"], avoid_blocks={sb})
        if hit and len(hit) < len(edges) and not other_hits:
            return "+".join(hit)
    return None


def variants_of(var):
    return var.split("+") if var else []


def run(P, C, tier):
    C.explanation = (
        "Static decision of the transaction discipline of the single writer: on the MIR control-flow graph of "
        "process_batch_write every statement group that touches the connection is dominated by BEGIN and, on every path "
        "to the Ok return, followed by the daily-log marks and COMMIT; the error edge of every write reaches ROLLBACK and a "
        "return without passing COMMIT or another write; in the writer thread every positive acknowledgement is "
        "control-dependent on process_batch_write having returned Ok; start-up always requests a log recomputation; only "
        "the writer owns a read-write connection. Crash behaviour of SQLite/WAL itself is trusted.")
    C.rule("R1", "every connection-using call of process_batch_write is dominated by BEGIN and every path from it to the Ok return passes COMMIT")
    C.rule("R2", "from the error edge of each write no path reaches COMMIT or another write; every such path executes ROLLBACK before returning")
    C.rule("R3", "the daily-log marks (DailyMutations::write) dominate COMMIT and are themselves inside the transaction; PRAGMA optimize only after COMMIT")
    C.rule("R4", "in the writer thread, Ok acknowledgements are control-dependent on process_batch_write == Ok, Err arm sends only errors; both arms cover every WriteMessage variant")
    C.rule("R5", "GraphDatabaseService::start sends WriteMessage::ComputeDailyLog on its success path")
    C.rule("R6", "only BufferedDatabaseWriter::start opens a connection without query_only; reader connections set query_only=1 before use")
    C.rule("R7", "every WriteMessage variant has its own arm in process_batch_write and is classified writing / non-writing")
    try:
        b = P.body(PBW)
    except mir.MissingAnchor as e:
        C.anchor_missing("R1", "process_batch_write", e)
        return
    C.saw(b)
    begin = commit = None
    rollbacks = []
    pragma = []
    writes = []
    via_closure = {}
    for bi, t, ob, obi in b.calls_incl_closures():
        name = callee_name(t)
        args = ob.call_args(obi)
        uses_conn = any(ob.type_of_root(a).endswith("rusqlite::Connection") and a[0] != "field" for a in args)
        if not uses_conn:
            continue
        if ob is not b:
            # a write made inside a closure handed to an iterator driver (`try_for_each(|x| x.write(conn))`): the driver call is the write
            if bi not in via_closure:
                via_closure[bi] = name
                writes.append((bi, b.blocks[bi]["t"]))
            continue
        if re.search(r"Connection::(is_autocommit|changes|last_insert_rowid|total_changes)$", name):
            continue        # pure state queries of the connection: neither a write nor fallible
        if name.endswith("Connection::execute"):
            txt = exec_text(b, bi)
            if txt == "BEGIN TRANSACTION" or txt == "BEGIN":
                begin = bi
            elif txt == "COMMIT":
                commit = bi
            elif txt == "ROLLBACK":
                rollbacks.append(bi)
            elif txt and txt.startswith("PRAGMA"):
                pragma.append(bi)
            else:
                writes.append((bi, t))
        else:
            writes.append((bi, t))
    C.ob("R1", "begin-exists", begin is not None, b.loc(), "BEGIN TRANSACTION is executed", nontrivial=False)
    C.ob("R1", "commit-exists", commit is not None, b.loc(), "COMMIT is executed", nontrivial=False)
    if begin is None or commit is None:
        return
    ra = mir.return_assignments(b)
    ok_blocks = ra["Ok"]
    C.ob("R1", "ok-return", len(ok_blocks) >= 1, b.loc(), "Ok return found", nontrivial=False)
    # the BEGIN error edge returns before anything is written
    marks = [bi for bi, t in writes if callee_name(t).endswith("DailyMutations::write")]
    per_kind = {}
    for bi, t in writes:
        name = mir.short(callee_name(t))
        var = variant_guard(b, bi, "database::sqlite_database::WriteMessage") or ("marks" if bi in marks else "-")
        n = per_kind.get((var, name), 0)
        per_kind[(var, name)] = n + 1
        key = "%s:%s%s" % (var, name, "" if n == 0 else "#%d" % n)
        dom = b.dominates(begin, bi) and begin != bi
        to_ok = b.must_pass(bi, [commit], ok_blocks)
        C.ob("R1", key, dom and to_ok, b.loc(bi),
             "%s: dominated by BEGIN=%s; every path to Ok passes COMMIT=%s" % (term_str(b.def_term(bi, None, t, 0))[:90], dom, to_ok))
        # R2
        re_ = mir.result_edges(b, bi)
        if re_ is None:
            C.ob("R2", key, False, b.loc(bi), "the result of this write is not tested")
            continue
        err = re_["err"]
        after = b.reachable(err)
        other_writes = [w for w, _ in writes if w in after]
        reaches_commit = commit in after
        if re_["via"] == "?":
            # `?` exit: returns Err at once; nothing can be committed from here (no ROLLBACK demanded, see DESIGN C13-R2)
            ok2 = not other_writes and not reaches_commit
            C.ob("R2", key, ok2, b.loc(bi), "`?` error edge returns without COMMIT (%s) or another write (%s)" % (not reaches_commit, not other_writes))
        else:
            exits = b.exits()
            rb = b.must_pass(err, rollbacks, exits, after=False)
            returns_err = not (set(ok_blocks) & after)
            ok2 = not other_writes and not reaches_commit and rb and returns_err
            C.ob("R2", key, ok2, b.loc(bi),
                 "error edge: no further write=%s, no COMMIT=%s, ROLLBACK on every path=%s, returns Err=%s" % (not other_writes, not reaches_commit, rb, returns_err))
    # an or-pattern arm serves several variants with one call: each variant counts
    C.floor("R1", "connection-using calls inside the transaction", sum(max(1, len(variants_of(k[0]))) * n_ for k, n_ in per_kind.items()), 13)
    C.floor("R2", "ROLLBACK sites", len(rollbacks), 12)
    # R10: no return leaves the writer's connection inside the transaction
    C.rule("R10", "the single read-write connection is never left inside an open transaction: after BEGIN succeeded every path to a return passes COMMIT or ROLLBACK "
                  "(an early `?` exit keeps the transaction open; the next batch's BEGIN then fails with `cannot start a transaction within a transaction` and no "
                  "write of the instance ever succeeds again); only the failure of ROLLBACK itself is excused")
    be = mir.result_edges(b, begin)
    if be is None:
        C.ob("R10", "transaction-closed-on-every-return", False, b.loc(begin), "the result of BEGIN is not tested")
    else:
        rb_err = set()
        for r_ in rollbacks:
            re_r = mir.result_edges(b, r_)
            if re_r is not None and re_r.get("err") is not None:
                rb_err.add((re_r["switch"], re_r["err"]))
        closers = set(rollbacks)
        # `conn.is_autocommit() == true` states that no transaction is active (SQLite rolled it back itself): that edge closes too
        from rules import rights as _rights
        for sb in b.live_blocks():
            tt = b.blocks[sb]["t"]
            if tt["k"] != "switch":
                continue
            term = b.switch_term(sb, expand_vars=True)
            if term[0] == "discr":
                continue
            for tg, vals in _rights.switch_edges(b, sb):
                atom, truth = mir.cond_atoms(term, vals)
                if atom[0] == "call" and atom[1].endswith("Connection::is_autocommit") and truth is True:
                    rb_err.add((sb, tg))
        ce0 = mir.result_edges(b, commit)
        ok_commit_edge = set()
        # COMMIT closes the transaction only when it succeeds: its error edge still needs a ROLLBACK
        reach = b.reachable(be["ok"], avoid_blocks=closers | {commit}, avoid_edges=rb_err)
        open_exits = sorted(x for x in b.exits() if x in reach)
        # paths through a failed COMMIT
        leak_commit = False
        if ce0 is not None and ce0.get("err") is not None:
            r2 = b.reachable(ce0["err"], avoid_blocks=closers, avoid_edges=rb_err)
            leak_commit = any(x in r2 for x in b.exits())
        # every error edge inside the transaction: the tested result of ANY call between BEGIN and COMMIT (not only the writes).
        # The decision is taken per error edge (local, short paths): a walk from BEGIN over the whole function meets infeasible
        # combinations once error handling goes through a helper (`Self::rollback_on_error(x.write(conn), conn)?`: Ok arm of the
        # helper followed by the Break edge of the `?`)
        leaks = []
        for bi, t in b.live_calls():
            if bi in (begin,) or bi in closers or not b.dominates(begin, bi) or b.dominates(commit, bi) and bi != commit:
                continue
            if "d:QuestionMark" in t["at"][1] and callee_name(t).endswith("Try>::branch"):
                continue
            re_ = mir.result_edges(b, bi)
            if re_ is None or re_.get("err") is None:
                continue
            adt_ = b.switch_term(re_["switch"], expand_vars=False)
            if adt_[0] != "discr" or not re.search(r"(result::Result|ops::ControlFlow|control_flow::ControlFlow)$", adt_[2]):
                continue        # an Option (iterator end, lookup miss) is not an error
            r3 = b.reachable(re_["err"], avoid_blocks=closers, avoid_edges=rb_err)
            if any(x in r3 for x in b.exits()):
                leaks.append("%s at %s" % (mir.short(callee_name(t)) if bi != commit else "COMMIT", b.loc(bi)))
        C.ob("R10", "transaction-closed-on-every-return", not leaks, b.loc(begin),
             "error edges between BEGIN and COMMIT that reach a return without ROLLBACK: %s" % (leaks or "none"))
    # R3
    C.ob("R3", "marks-exist", len(marks) == 1, b.loc(), "exactly one DailyMutations::write(conn) call", nontrivial=False)
    for m in marks:
        C.ob("R3", "marks-before-commit", b.dominates(m, commit) and b.dominates(begin, m), b.loc(m), "BEGIN dom marks dom COMMIT")
    for p in pragma:
        C.ob("R3", "pragma-after-commit", b.dominates(commit, p), b.loc(p), "PRAGMA runs only after COMMIT")
    # COMMIT's own error edge returns Err
    ce = mir.result_edges(b, commit)
    C.ob("R3", "commit-error-returns", ce is not None and not (set(ok_blocks) & b.reachable(ce["err"])), b.loc(commit), "a failed COMMIT is reported as Err")
    # R7 coverage of WriteMessage in process_batch_write
    wm = P.adts.get("database::sqlite_database::WriteMessage")
    variants = [v["name"] for v in wm["variants"]] if wm else []
    C.floor("R7", "WriteMessage variants", len(variants), 13)
    arms = arms_of(b, "database::sqlite_database::WriteMessage")
    written = {v_ for k in per_kind for v_ in variants_of(k[0])}
    for v in variants:
        if v in NON_WRITING:
            C.ob("R7", "variant:" + v, v in arms, b.loc(), "non-writing variant (%s) has an arm" % NON_WRITING[v], nontrivial=False)
        elif v in WRITING:
            C.ob("R7", "variant:" + v, v in arms and v in written, b.loc(), "writing variant has an arm that writes through conn")
        else:
            C.ob("R7", "variant:" + v, False, b.loc(), "unclassified WriteMessage variant: decide whether it writes and whether it marks the daily log")
    # ---- R8 error discipline on the write path
    C.rule("R8", "no error of the storage layer is dropped on the write path: every rusqlite Result produced in a function reachable from process_batch_write is tested, propagated with `?`, returned, or handed to a call whose own result is")
    reach = P.reachable_from([b.id])
    n8 = 0
    for bid in sorted(reach):
        fb = P.bodies.get(bid)
        if fb is None or not fb.file.startswith("src/"):
            continue
        per = {}
        for bi, t in fb.live_calls():
            ty = fb.locals[t["dest"][0]]
            if not ty.startswith("std::result::Result<"):
                continue
            name = callee_name(t)
            if "rusqlite" not in name and "rusqlite" not in ty:
                continue
            if name.endswith("::from_residual"):
                continue   # the error exit of `?` itself: it is the propagation (its value is the function's / helper's result)
            n8 += 1
            C.saw(fb)
            ok = mir.result_edges(fb, bi) is not None or t["dest"] == [0]
            how = "tested or propagated"
            if not ok:
                # handed to an adaptor (e.g. OptionalExtension::optional, map_err) whose result is tested
                for bi2, t2 in fb.live_calls():
                    if bi2 == bi:
                        continue
                    a = fb.call_args(bi2)
                    if a and any(s[0] == "call" and s[3] == bi for s in mir.subterms(a[0])):
                        if mir.result_edges(fb, bi2) is not None or t2["dest"] == [0]:
                            ok = True
                            how = "through %s" % mir.short(callee_name(t2))
                # assigned to the return place / returned as the tail expression
                if not ok:
                    for bi3 in fb.live_blocks():
                        for si3, st3 in enumerate(fb.blocks[bi3]["s"]):
                            if st3["lhs"] == [0]:
                                t3 = fb.def_term(bi3, si3, st3["rv"], 0, expand_vars=True)
                                if any(s[0] == "call" and s[3] == bi for s in mir.subterms(t3)):
                                    ok = True
                                    how = "returned"
            if not ok:
                k = "%s:%s" % (mir.short(fb.id), mir.short(name))
                per[k] = per.get(k, 0) + 1
                C.ob("R8", "dropped:%s#%d" % (k, per[k]), False, fb.loc(bi), "the Result of %s is neither tested, propagated nor returned: a failing statement would not abort the batch" % mir.short(name))
    C.ob("R8", "storage-results-checked", True, b.loc(), "%d rusqlite results on the write path examined" % n8, nontrivial=True)
    C.floor("R8", "rusqlite results on the write path (calls other than the `?` exits)", n8, 140)
    # transaction control statements exist only in process_batch_write
    import sql as _sql
    for fb in P.bodies.values():
        if not fb.file.startswith("src/") or fb.id == b.id:
            continue
        for bi, cal, text, holes, term in _sql.statements(fb):
            if text and re.match(r"\s*(BEGIN|COMMIT|ROLLBACK|SAVEPOINT|RELEASE|END)\b", text.strip(), re.I) and not fb.id.endswith("sqlite_database::prepare_connection"):
                C.ob("R8", "transaction-control-outside-writer:" + mir.short(fb.id), False, fb.loc(bi), "`%s` executed outside process_batch_write: a nested COMMIT/ROLLBACK would end the batch transaction early" % text.strip()[:30])
    # ---- R4 writer thread
    wt = [x for x in P.bodies.values() if x.id.startswith("database::sqlite_database::BufferedDatabaseWriter::start::") and x.calls_to(r"BufferedDatabaseWriter::process_batch_write$")]
    if len(wt) != 1:
        C.anchor_missing("R4", "writer-thread", "closures calling process_batch_write: %d" % len(wt))
    else:
        w = wt[0]
        C.saw(w)
        pb = w.calls_to(r"BufferedDatabaseWriter::process_batch_write$")[0][0]
        n_ok = n_err = 0
        arms_ok = set()
        arms_err = set()
        # the variable holding the batch result: the local whose only definition is the process_batch_write call
        RES = set()
        for l, n, lty, leaf in w.named_locals():
            ds = w.var_defs(leaf)
            if len(ds) == 1 and mir.strip_refs(ds[0])[0] == "call" and mir.strip_refs(ds[0])[3] == pb:
                RES.add(l)
        for bi, t in w.live_calls():
            name = callee_name(t)
            if not re.search(r"(Sender::send|Sender::blocking_send)$", name):
                continue
            args = w.call_args(bi, expand_vars=False)
            payload = args[1]
            g = w.guards(bi)
            res = None
            for s, vals, term in g:
                dv = mir.discr_variants(term, vals)
                if dv and mir.strip_refs(dv[0])[0] == "var" and mir.strip_refs(dv[0])[2] in RES:
                    res = dv[1][0]
                elif dv and mir.strip_refs(dv[0])[0] == "call" and mir.strip_refs(dv[0])[3] == pb:
                    res = dv[1][0]
            var = variant_guard(w, bi, "database::sqlite_database::WriteMessage")
            has_ok = any(s[0] == "aggr" and s[3] == "Ok" for s in mir.subterms(payload))
            has_err = any(s[0] == "aggr" and s[3] == "Err" for s in mir.subterms(payload))
            if var is None:
                if term_str(payload) == "True":
                    continue  # send_ready(true): flow control, not an acknowledgement
                C.ob("R4", "send-outside-arm", False, w.loc(bi), "send of %s outside a WriteMessage arm" % term_str(payload)[:80])
                continue
            if has_ok:
                n_ok += 1
                arms_ok.update(variants_of(var))
                C.ob("R4", "ack-ok:" + var, res == "Ok" and not has_err, w.loc(bi), "Ok acknowledgement only under process_batch_write == Ok (found under %s)" % res)
            elif has_err:
                n_err += 1
                arms_err.update(variants_of(var))
                C.ob("R4", "ack-err:" + var, res == "Err", w.loc(bi), "Err acknowledgement under process_batch_write == Err (found under %s)" % res)
            else:
                C.ob("R4", "ack-unclassified:" + var, False, w.loc(bi), "acknowledgement payload is neither Ok nor Err: %s" % term_str(payload)[:80])
        # the `result` variable must be the process_batch_write result
        C.ob("R4", "result-is-batch-result", len(RES) <= 1 and (n_ok + n_err) > 0, w.loc(pb), "the acknowledgements are selected by the value returned by process_batch_write (held in at most one variable, or matched directly)")
        for v in variants:
            if v in NON_WRITING:
                continue
            C.ob("R4", "covered:" + v, v in arms_ok and v in arms_err, w.loc(), "variant acknowledged in both the Ok arm and the Err arm", nontrivial=False)
        C.floor("R4", "Ok acknowledgements", n_ok, 12)
        C.floor("R4", "Err acknowledgements", n_err, 12)
        # R11: a buffer is processed once and then acknowledged
        C.rule("R11", "applied entirely or not at all, and acknowledged accordingly: a buffer handed to process_batch_write comes straight from the channel "
                      "(never from a queue of messages that were already processed: a rolled back Node::write has kept the rowid it was given, a second "
                      "write would UPDATE a row that does not exist and be acknowledged), and after the call every path to the next buffer goes through the "
                      "match on the batch result that acknowledges each message")
        buf = strip_refs(w.call_args(pb, expand_vars=False)[0])
        while buf[0] in ("deref", "ref"):
            buf = strip_refs(buf[1])
        srcs = []
        if buf[0] == "var":
            for d_ in w.var_defs(buf):
                c_ = mir.has_call(d_, r"::blocking_recv$|::recv$")
                srcs.append("recv" if c_ is not None and not mir.has_call(d_, r"(VecDeque|Vec).*::(pop_front|pop_back|pop|remove)$") else term_str(d_)[:60])
            # phi of several sources shows as several definitions or as one phi term
            for d_ in w.var_defs(buf):
                u_ = strip_refs(d_)
                if u_[0] == "phi":
                    srcs = ["recv" if (mir.has_call(x, r"::blocking_recv$|::recv$") is not None and mir.has_call(x, r"(VecDeque|Vec).*::(pop_front|pop_back|pop|remove)$") is None) else term_str(x)[:60] for x in u_[1]]
        only_recv = bool(srcs) and all(x == "recv" for x in srcs)
        C.ob("R11", "buffer-comes-from-the-channel", only_recv, w.loc(pb), "the buffer processed is %s" % (", ".join(sorted(set(srcs))) or term_str(buf)))
        re_w = mir.result_edges(w, pb)
        if re_w is None:
            C.ob("R11", "acknowledged-after-one-pass", False, w.loc(pb), "the batch result is not matched")
        else:
            from rules.rights import enclosing_loop_header as _elh
            hdrs = set()
            # loop heads: blocks reachable from pb that reach pb again and dominate it
            for d_ in w.dom_chain(pb):
                if d_ != pb and d_ in w.reach_after(pb) and pb in w.reach_after(d_):
                    hdrs.add(d_)
            back = set()
            for h_ in hdrs:
                for p_ in w.preds().get(h_, []) if isinstance(w.preds(), dict) else w.preds()[h_]:
                    if p_ in w.reach_after(pb) or p_ == pb:
                        back.add(h_)
            r_ = w.reach_after(pb, avoid_blocks={re_w["switch"]})
            skipped = sorted(h_ for h_ in back if h_ in r_) + sorted(x for x in w.exits() if x in r_)
            C.ob("R11", "acknowledged-after-one-pass", not skipped, w.loc(pb),
                 "every path from process_batch_write to the next buffer (or the end of the thread) passes the match on its result: %s" % (not skipped))
    # ---- R5
    try:
        st = P.body("GraphDatabaseService::start")
        found = False
        for fid in P.family(st.id):
            fb = P.bodies[fid]
            if fb.kind.startswith("Coroutine") and fb.parent == st.id:
                ra2 = mir.return_assignments(fb)
                for bi, t in fb.live_calls():
                    tt = fb.def_term(bi, None, t, 0)
                    if callee_name(t).endswith("BufferedDatabaseWriter::send") and any(s[0] == "aggr" and s[3] == "ComputeDailyLog" for s in mir.subterms(tt)):
                        # every Ok return is preceded by this send
                        oks = ra2["Ok"]
                        dom = all(fb.dominates(bi, o) for o in oks) and bool(oks)
                        found = True
                        C.saw(fb)
                        C.ob("R5", "compute-at-start", dom, fb.loc(bi), "the ComputeDailyLog send dominates the Ok return of start (%d Ok exits)" % len(oks))
        if not found:
            C.ob("R5", "compute-at-start", False, st.loc(), "no WriteMessage::ComputeDailyLog send in GraphDatabaseService::start")
    except mir.MissingAnchor as e:
        C.anchor_missing("R5", "start", e)
    # ---- R6
    sites = P.call_sites(r"sqlite_database::create_connection$")
    for cb, bi, t in sites:
        owner = mir.short(P.owner_fn(cb.id))
        if owner == "BufferedDatabaseWriter::start":
            C.ob("R6", "rw:" + owner, True, cb.loc(bi), "the single read-write connection", nontrivial=False)
        else:
            # must set query_only=1 on that connection before it is used for anything else
            qo = [qi for qi, qt in cb.calls_to(r"sqlite_database::set_pragma$")
                  if mir.strip_refs(cb.call_args(qi)[0])[:2] == ("const", "query_only") and mir.strip_refs(cb.call_args(qi)[1])[:2] == ("const", "1")]
            ok = bool(qo) and all(cb.dominates(bi, q) for q in qo)
            if ok:
                # every later use of conn is dominated by the pragma and its `?` success edge
                q = qo[0]
                for ui, ut in cb.live_calls():
                    if ui in (bi, q):
                        continue
                    if any(mir.mentions(a, "conn") for a in cb.call_args(ui)) and not cb.dominates(q, ui) and cb.dominates(bi, ui) and not callee_name(ut).endswith("unwrap"):
                        ok = False
            C.ob("R6", "ro:" + owner, ok, cb.loc(bi), "connection opened outside the writer is set query_only=1 before any use")
    C.floor("R6", "create_connection call sites", len(sites), 2)
    # ---- R9: a journal that can roll back
    C.rule("R9", "every connection is opened with a journal that can roll a transaction back (journal_mode WAL/DELETE/TRUNCATE/PERSIST set with `?` on every path to Ok, before any table is created)")
    try:
        cc = P.body("sqlite_database::create_connection")
        C.saw(cc)
        jm = []
        for qi, qt in cc.calls_to(r"sqlite_database::set_pragma$"):
            a = [mir.strip_refs(x) for x in cc.call_args(qi)]
            if a[0][:2] == ("const", "journal_mode"):
                jm.append((qi, a[1]))
        C.floor("R9", "journal_mode pragma", len(jm), 1)
        oks = mir.return_assignments(cc)["Ok"]
        for qi, val in jm:
            mode = val[1].upper() if val[0] == "const" and isinstance(val[1], str) else None
            C.ob("R9", "journal-mode-can-roll-back", mode in ("WAL", "DELETE", "TRUNCATE", "PERSIST"), cc.loc(qi),
                 "journal_mode=%s (OFF and MEMORY lose atomicity when the process dies inside a transaction)" % (mode or mir.term_str(val)))
            re_ = mir.result_edges(cc, qi)
            okb = re_["ok"] if re_ and re_["via"] == "?" else None
            C.ob("R9", "journal-mode-on-every-path", okb is not None and bool(oks) and all(cc.dominates(okb, o) for o in oks), cc.loc(qi),
                 "the pragma succeeded (`?`) on every path that returns the connection")
            prep = cc.calls_to(r"sqlite_database::prepare_connection$")
            C.ob("R9", "journal-mode-before-schema", bool(prep) and okb is not None and all(cc.dominates(okb, p) for p, _ in prep), cc.loc(qi),
                 "set before prepare_connection creates the tables")
        others = [x for x in P.call_sites(r"rusqlite::Connection::open(_with_flags|_in_memory)?$") if not x[0].file.endswith("_test.rs")]
        for cb, bi, t in others:
            owner = mir.short(P.owner_fn(cb.id))
            C.ob("R9", "opened-by:" + owner, owner == "sqlite_database::create_connection", cb.loc(bi), "SQLite connections are opened only by create_connection")
        C.floor("R9", "Connection::open sites", len(others), 1)
    except mir.MissingAnchor as e:
        C.anchor_missing("R9", "create_connection", e)


def arms_of(body, adt):
    arms = set()
    for bi in body.live_blocks():
        t = body.blocks[bi]["t"]
        if t["k"] == "switch":
            term = body.switch_term(bi)
            if term[0] == "discr" and term[2] == adt:
                table = dict(term[3])
                other = t["otherwise"]
                for v, tg in t["targets"]:
                    if tg != other:
                        arms.add(table.get(v))
    return arms
