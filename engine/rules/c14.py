"""C14 — no input crashes, wedges or confuses an instance (census + structural clauses)."""
import os
import re
import mir
import sql
from mir import term_str, strip_refs, callee_name, field_path, full_path
from rules import panics, rights
from rules.c14_table import TABLE
from rules.c13 import arms_of

MESSAGE_ENUMS = {
    "database::graph_database::DbMessage": r"GraphDatabaseService::start::",
    "database::authorisation_service::AuthorisationMessage": r"AuthorisationService::process_message::",
    "database::sqlite_database::WriteMessage": r"BufferedDatabaseWriter::process_batch_write$",
    "synchronisation::Query": r"InboundQueryService::process_inbound::",
    "synchronisation::RemoteEvent": r"LocalPeerService::process_remote_event::",
    "signature_verification_service::VerificationMessage": r"SignatureVerificationService::start::",
}
SQL_KEYWORDS_SAMPLE = ["group", "order", "select", "from", "where", "index", "table", "limit", "join"]


def loop_bounded_index(body, bi, t):
    """`v[i]` where i ranges over 0..v.len() of the same vector"""
    a = body.call_args(bi)
    if len(a) < 2:
        return None
    idx = strip_refs(a[1])
    if idx[0] != "var":
        return None
    col = mir.elem_collection(body, idx)
    if col is None:
        return None
    rng = col
    if rng[0] == "aggr" and rng[2].endswith("Range") and len(rng[4]) == 2:
        end = rng[4][1]
        ln = mir.has_call(end, r"::len$")
        if ln is not None and mir.strip(ln[2][0]) == mir.strip(a[0]):
            return "index variable ranges over 0..len() of the indexed collection"
    return None


def paired_guard(body, bi, t, kind):
    """is_x()/as_x(), contains_key()/get(), len() guards that dominate the site"""
    if kind not in ("unwrap", "expect"):
        return None
    recv = body.call_args(bi, expand_vars=True)[0]
    inner = strip_refs(recv)
    g = body.guards(bi, expand_vars=True)
    base = mir.strip(inner)
    for s, vals, term in g:
        atom, truth = mir.cond_atoms(term, vals)
        if atom[0] != "call" or not atom[2]:
            continue
        a0 = mir.strip(atom[2][0])
        n = atom[1].split("::")[-1]
        # same place through clone()/as_ref()/as_mut()
        if a0 == base or (inner[0] == "call" and inner[2] and mir.strip(inner[2][0]) == a0):
            if (n in ("is_some", "is_ok") and truth is True) or (n in ("is_none", "is_err") and truth is False):
                return "guarded by %s()" % n
        if inner[0] == "call" and inner[2]:
            m = inner[1].split("::")[-1]
            pair = {"as_object": "is_object", "as_array": "is_array", "as_i64": "is_i64", "as_u64": "is_u64", "as_f64": "is_f64", "as_str": "is_string", "get": "contains_key"}
            if pair.get(m) == n and truth is True and mir.strip(inner[2][0]) == a0:
                return "%s() after %s()" % (m, n)
    return None


def classify_site(P, body, bi, kind, name, t):
    if kind.startswith("assert:Overflow"):
        return "W", "arithmetic overflow check: compiled out in release builds (overflow-checks off), counted"
    if t["k"] == "call":
        r = panics.guard_discharges(body, bi, t, kind) or paired_guard(body, bi, t, kind)
        if r:
            return "L", r
        r = panics.grammar_shaped(body, bi, t, kind)
        if r:
            return "G", r
        if kind in ("index", "index_mut"):
            r = loop_bounded_index(body, bi, t)
            if r:
                return "L", r
    if kind == "assert:BoundsCheck":
        # constant index below a length established by a dominating test on the same slice
        cond = body.operand_term(t["cond"])
        if cond[0] == "bin" and cond[1] == "Lt" and cond[2][0] == "const" and isinstance(cond[2][1], int):
            idx = cond[2][1]
            sl = mir.strip(cond[3][2]) if cond[3][0] == "un" else mir.strip(cond[3])
            for s, vals, term in body.guards(bi):
                atom, truth = mir.cond_atoms(term, vals)
                if atom[0] == "bin" and atom[3][0] == "const" and isinstance(atom[3][1], int):
                    ln = mir.has_call(atom[2], r"::len$")
                    if ln is not None and mir.strip(ln[2][0]) == sl:
                        n = atom[3][1]
                        op = atom[1]
                        holds = (op == "Ne" and truth is False and n > idx) or (op == "Eq" and truth is True and n > idx) or \
                                (op == "Lt" and truth is False and n > idx) or (op == "Ge" and truth is True and n > idx) or (op == "Gt" and truth is True and n >= idx)
                        if holds:
                            return "L", "constant index %d under a dominating length test (len %s %d)" % (idx, op, n)
    arg = ""
    if t["k"] == "call" and t["args"]:
        arg = body.cstr(body.call_args(bi)[0])    # variables are named by their type: the table never depends on a spelling
    fn = mir.short(body.id) if not body.id.count("{closure") else body.id.split("::", 2)[-1] if False else body.id
    for fre, kre, are, cls, reason in TABLE:
        if re.search(fre, body.id) and re.search(kre, kind) and re.search(are, arg):
            return cls, reason
    return "?", "unclassified panic-capable site: %s on %s" % (kind, arg[:80])


def run(P, C, tier):
    C.explanation = (
        "Panic freedom for all inputs is not provable by this technique; decided is a census with exact keys and six structural "
        "clauses. Census: every panic-capable site of the crate (unwrap/expect, panic!/unreachable!/assert! lowering, bounds and "
        "division asserts, slice/str indexing, copy_from_slice, Vec::remove, date arithmetic) is placed in exactly one class: "
        "L locally guarded (decided from dominating tests on the same place), G grammar-shaped (pest production shape inside the "
        "parser modules, assumed), W overflow checks absent from release builds, I/T table entries with a reason, F finding. A "
        "site in no class, or a guarded site whose guard disappears, is a violation. Clauses: parameters validated before use, "
        "frame lengths bounded before they size anything, message enums matched exhaustively, generated identifiers quoted or "
        "restricted, SQL templates balanced per arm, stored JSON produced by a serialiser.")
    C.rule("R1", "panic-site census: every panic-capable site is locally guarded, grammar-shaped, overflow-only, or listed in c14_table.py with class I/T; F entries and unlisted sites are violations")
    C.rule("R2", "Variables::validate_params dominates the first use of the parameters in MutationQuery::execute, DeletionQuery::build and Query::read")
    C.rule("R3", "every length read with read_u32 is compared with a bound before it sizes an allocation, a resize or a slice")
    C.rule("R4", "message enums handled by actors are matched exhaustively (each variant has its own arm, no catch-all)")
    C.rule("R5", "identifiers placed in bare SQL positions are quoted, or the parsers reject SQL keywords and digit-first names")
    C.rule("R6", "within one arm of a SQL builder the parentheses of the pushed template pieces balance")
    C.rule("R7", "Node._json is assigned only from serde_json::to_string, from a stored/verified row, or from a template whose holes are constants or base64 text")
    # ---------------------------------------------------------------- R1
    classes = {}
    seen = {}
    findings = []
    for b in P.bodies.values():
        if b.from_expansion or not b.file.startswith("src/"):
            continue
        ss = panics.sites(P, b)
        if ss:
            C.saw(b)
        for bi, kind, name, t in ss:
            cls, reason = classify_site(P, b, bi, kind, name, t)
            classes[cls] = classes.get(cls, 0) + 1
            arg = b.cstr(b.call_args(bi)[0])[:50] if t["k"] == "call" and t["args"] else ""
            base = "%s|%s|%s" % (mir.short(b.id) if "{closure" not in b.id else b.id.split("database::")[-1].split("network::")[-1].split("synchronisation::")[-1], kind, re.sub(r"[^A-Za-z0-9_:.]+", "_", arg)[:40])
            n = seen.get(base, 0)
            seen[base] = n + 1
            key = "%s#%d" % (base, n)
            if cls in ("L", "G", "W", "I", "T"):
                # W/G are counted; only a sample is written out to keep the evidence readable
                if cls in ("I", "T", "L"):
                    C.ob("R1", key, True, b.loc(bi), "[%s] %s" % (cls, reason[:140]), nontrivial=(cls == "L"))
            elif cls == "F":
                C.ob("R1", key, False, b.loc(bi), reason)
            else:
                C.ob("R1", key, False, b.loc(bi), reason + " -- read it, then guard it or add it to engine/rules/c14_table.py with a reason")
    C.extra["census"] = classes
    C.floor("R1", "panic-capable sites examined", sum(classes.values()), 400)
    C.floor("R1", "grammar-shaped sites (assumed from the pest grammars)", classes.get("G", 0), 80)
    # ---------------------------------------------------------------- R2
    for fn, users in (("mutation_query::MutationQuery::execute", r"MutationQuery::get_mutate_query$"), ("deletion::DeletionQuery::build", r"HashMap::get$"), ("query::Query::read", r"SingleQuery::build_query_params$")):
        try:
            b = P.body(fn)
            C.saw(b)
            vp = b.calls_to(r"Variables::validate_params$")
            # uses made directly or inside a closure handed to an iterator driver (`mutations.iter().map(|m| Self::get_mutate_query(m, ..)).collect()`)
            ur = re.compile(users)
            us = []
            for bi_, t_, ob_, obi_ in b.calls_incl_closures():
                callee_name(t_)
                if ur.search(t_["nrf"]) or ur.search(t_["nf"]):
                    if (bi_, t_) not in us:
                        us.append((bi_, t_))
            ok = len(vp) == 1 and bool(us)
            if ok:
                re_ = mir.result_edges(b, vp[0][0])
                ok = re_ is not None and re_["via"] == "?" and all(b.dominates(re_["ok"], u[0]) for u in us)
            C.ob("R2", "validated-before-use:" + fn.split("::")[-2] + "::" + fn.split("::")[-1], ok, b.loc(vp[0][0]) if vp else b.loc(), "validate_params(parameters)? succeeds before the parameters are read (%d uses)" % len(us))
        except mir.MissingAnchor as e:
            C.anchor_missing("R2", fn, e)
    # R2b: validate_params takes each declared parameter out of the map to check it: on every path that does not
    # return an error it must put it back (the later `params.get(var).unwrap()` sites of class I rely on it)
    try:
        vp = P.body("parameter::Variables::validate_params")
        C.saw(vp)
        rem = [bi for bi, t in vp.calls_to(r"HashMap::remove$") if vp.cpath(vp.call_args(bi)[0]) == "‹Parameters›.params"]
        ins = [bi for bi, t in vp.calls_to(r"HashMap::insert$") if vp.cpath(vp.call_args(bi)[0]) == "‹Parameters›.params"]
        hdr = [bi for bi, t in vp.live_calls() if "d:ForLoop" in t["at"][1] and callee_name(t).endswith("::next")]
        ok = len(rem) == 1 and bool(ins) and len(hdr) >= 1
        det = "remove sites %d, insert sites %d" % (len(rem), len(ins))
        if ok:
            re_ = mir.result_edges(vp, rem[0])
            ra = mir.return_assignments(vp)
            targets = set(ra["Ok"]) | {h for h in hdr if vp.dominates(h, rem[0])}
            same_key = all(mir.strip(vp.call_args(i)[1]) == mir.strip(vp.call_args(rem[0])[1]) or field_path(vp.call_args(i)[1]) == field_path(vp.call_args(rem[0])[1]) for i in ins)
            r = vp.reachable(re_["ok"], avoid_blocks=set(ins)) if re_ and "ok" in re_ else targets
            leak = sorted(vp.loc(x) for x in (r & targets))
            ok = not leak and same_key
            det = "every path from `params.remove(&var_name)` == Some(..) to the next variable or to Ok(()) re-inserts the value under the same name: %s (%d insert sites%s)" % (not leak, len(ins), "" if not leak else "; escaping at %s" % leak[:2])
        C.ob("R2", "validated-parameters-are-kept", ok, vp.loc(rem[0]) if rem else vp.loc(), det)
    except mir.MissingAnchor as e:
        C.anchor_missing("R2", "validate_params", e)
    # ---------------------------------------------------------------- R3
    n3 = 0
    for b in P.bodies.values():
        rs = b.calls_to(r"read_u32$")
        if not rs:
            continue
        C.saw(b)
        for bi, t in b.live_calls():
            n = callee_name(t)
            is_alloc = re.search(r"Vec::resize$|vec::from_elem$|Vec::with_capacity$|Vec::reserve$", n)
            is_slice = re.search(r"ops::Index.*::index$|ops::IndexMut.*::index_mut$", n)
            if not (is_alloc or is_slice):
                continue
            a = b.call_args(bi, expand_vars=True)
            size = a[1] if (is_alloc and n.endswith("resize")) or is_slice else a[1] if n.endswith("from_elem") else a[0]
            if n.endswith("from_elem"):
                size = a[1]
            terms, bars = mir.flow_sources(b, size, r"read_u32$")
            if not bars:
                continue
            n3 += 1
            bounded = False
            for s, vals, term in b.guards(bi, expand_vars=False):
                atom, truth = mir.cond_atoms(term, vals)
                if atom[0] != "bin" or atom[1] not in ("Gt", "Ge", "Lt", "Le"):
                    continue
                # the compared value is the received length (flows from read_u32), the bound is not
                from_peer = bool(mir.flow_sources(b, atom[2], r"read_u32$")[1])
                bound_from_peer = bool(mir.flow_sources(b, atom[3], r"read_u32$")[1])
                if not from_peer or bound_from_peer:
                    continue
                if atom[1] in ("Gt", "Ge") and truth is False:
                    bounded = True
                if atom[1] in ("Lt", "Le") and truth is True:
                    bounded = True
            owner = b.id.split("network::")[-1]
            k = "%s:%s" % (owner, "alloc" if is_alloc else "slice")
            cnt = len([o for o in C.obligations if o["key"].startswith("C14/R3/" + k)])
            C.ob("R3", "%s#%d" % (k, cnt), bounded, b.loc(bi), "length received from the peer %s before it sizes %s" % ("is compared with a bound" if bounded else "is NOT bounded", mir.short(n)))
    C.floor("R3", "peer-supplied lengths sizing a buffer or slice", n3, 12)
    # ---------------------------------------------------------------- R4
    for adt, where in MESSAGE_ENUMS.items():
        a = P.adts.get(adt)
        if a is None:
            C.anchor_missing("R4", adt, "enum not found")
            continue
        bodies = [x for x in P.bodies.values() if re.search(where, x.id)]
        arms = set()
        for x in bodies:
            arms |= arms_of(x, adt)
            C.saw(x)
        for v in a["variants"]:
            C.ob("R4", "%s::%s" % (adt.split("::")[-1], v["name"]), v["name"] in arms, bodies[0].loc() if bodies else "", "variant has its own arm in the actor", nontrivial=False)
    # ---------------------------------------------------------------- R5
    quoted = False
    for b in P.in_file("src/database/query.rs"):
        for bi, t in b.live_calls():
            if callee_name(t).endswith("fmt::format"):
                parts = sql.format_parts(b.def_term(bi, None, t, 0, expand_vars=True)) or []
                tpl = "".join(x[1] if x[0] == "lit" else "{}" for x in parts)
                if re.search(r"_node\s+\"\{\}\"|_node\s+\[\{\}\]|_node\s+`\{\}`", tpl):
                    quoted = True
    reserved = False
    for fn in ("data_model_parser::DataModel::parse_internal", "query_parser::QueryParser::parse"):
        b = P.body(fn, required=False)
        if b is not None:
            for fid in P.family(b.id):
                txt = " ".join(term_str(P.bodies[fid].def_term(bi, None, t, 0)) for bi, t in P.bodies[fid].live_calls())
                if re.search(r"(is_sql_keyword|SQL_KEYWORDS|reserved_sql)", txt):
                    reserved = True
    C.ob("R5", "bare-identifier", quoted or reserved, "src/database/query.rs",
         "entity aliases and reference field names are placed bare after `_node` / before `.id` in FROM and JOIN clauses; quoted=%s, parser rejects SQL keywords and digit-first names=%s -- a valid model with a field named e.g. `group` or `1st` yields a statement SQLite rejects" % (quoted, reserved))
    # ---------------------------------------------------------------- R6
    # forward dataflow of the set of possible parenthesis balances of the text pushed so far; nested builder
    # results count as balanced (each builder is checked itself); at every return the set must be {0}
    n6 = 0
    for b in P.in_file("src/database/query.rs"):
        if b.kind.startswith("Closure") or b.id.endswith("Query::read") or b.id.endswith("SingleQuery::add_param"):
            continue
        emit = {}
        for bi, t in b.live_calls():
            n = callee_name(t)
            if n.endswith("String::push_str") or n.endswith("String::push"):
                a = strip_refs(b.call_args(bi, expand_vars=True)[1])
                d = paren_delta(a)
                if d:
                    emit[bi] = d
        if not emit:
            continue
        n6 += 1
        C.saw(b)
        succ = b.succs()
        # variables that are mutated in the function: conditions over them are not path-invariant
        mutated = set()
        for bi2, t2 in b.live_calls():
            if mir.MUTATORS.search(callee_name(t2)) or callee_name(t2).endswith("::clear") or callee_name(t2).endswith("::pop"):
                base = b.call_args(bi2)[0]
                while base[0] in ("ref", "deref", "field"):
                    base = base[1]
                if base[0] in ("var", "param"):
                    mutated.add(base[1])

        def pure(atom):
            for x in mir.subterms(atom):
                if x[0] == "call" and not re.search(r"::(is_empty|len|is_some|is_none)$", x[1]):
                    return False
                if x[0] in ("var", "param") and x[1] in mutated:
                    return False
                if x[0] in ("local", "unknown", "phi", "await"):
                    return False
            return True

        def explore(emit):
            finals = set()
            bad_growth = False
            seen_states = set()
            work = [(0, 0, frozenset())]
            exits = set(b.exits())
            steps = 0
            while work and steps < 200000:
                steps += 1
                x, bal, val = work.pop()
                if (x, bal, val) in seen_states:
                    continue
                seen_states.add((x, bal, val))
                bal2 = bal + emit.get(x, 0)
                if abs(bal2) > 6:
                    bad_growth = True
                    continue
                if x in exits:
                    finals.add(bal2)
                tt = b.blocks[x]["t"]
                if tt["k"] == "switch" and len(succ[x]) > 1:
                    term = b.switch_term(x, expand_vars=False)
                    if term[0] != "discr":
                        known = dict(val)
                        for tg, vals in rights.switch_edges(b, x):
                            atom, truth = mir.cond_atoms(term, vals)
                            if truth is None or not pure(atom):
                                work.append((tg, bal2, val))
                                continue
                            k = term_str(atom)
                            if k in known and known[k] != truth:
                                continue  # infeasible: the same invariant condition was decided otherwise earlier on this path
                            work.append((tg, bal2, frozenset(list(val) + [(k, truth)])))
                        continue
                for sx in succ[x]:
                    work.append((sx, bal2, val))

            return finals, bad_growth

        finals, bad_growth = explore(emit)
        ok = finals == {0} and not bad_growth
        detail = "possible parenthesis balances of the SQL text at return: %s" % sorted(finals)
        if not ok:
            # name the unbalanced piece: the single piece whose adjustment by one parenthesis restores {0}
            cands = []
            for k in emit:
                for d in (1, -1):
                    e2 = dict(emit)
                    e2[k] = emit[k] + d
                    f2, g2 = explore(e2)
                    if f2 == {0} and not g2:
                        cands.append("%s (%+d parenthesis)" % (b.loc(k), d))
            detail += "; unbalanced piece: %s" % (cands or "not a single piece")
        C.ob("R6", "balance:" + mir.short(b.id), ok, b.loc(), detail)
    C.floor("R6", "builder functions emitting parentheses", n6, 5)
    # ---------------------------------------------------------------- R7
    n7 = 0
    for b in P.bodies.values():
        if not b.file.startswith("src/") or b.from_expansion:
            continue
        for bi in sorted(b.live_blocks()):
            for si, st in enumerate(b.blocks[bi]["s"]):
                if st["lhs"][-1:] == ["._json"] and len(st["lhs"]) > 1:
                    n7 += 1
                    t = b.def_term(bi, si, st["rv"], 0, expand_vars=True)
                    ok, why = json_source_ok(b, t)
                    C.ob("R7", "json-store:%s" % mir.short(b.id), ok, "%s:%d" % (b.file, st["at"][0]), why)
                rv = st["rv"]
                if rv["r"] == "aggr" and rv.get("adt") == "database::node::Node" and not st["at"][1]:
                    t = b.def_term(bi, si, rv, 0, expand_vars=True)
                    v = t[4][t[5].index("_json")]
                    ok, why = json_source_ok(b, v)
                    n7 += 1
                    C.ob("R7", "json-literal:%s#%d" % (mir.short(b.id), len([o for o in C.obligations if o["key"].startswith("C14/R7/json-literal:%s#" % mir.short(b.id))])), ok, "%s:%d" % (b.file, st["at"][0]), why)
    C.floor("R7", "assignments of Node._json", n7, 5)
    r8_paging_length(P, C)
    r9_value_kinds(P, C)
    r10_insert_field(P, C)
    r11_grammar_value_kinds(P, C)
    r12_finite_floats(P, C)


def r8_paging_length(P, C):
    """get_paging indexes params.order_by with positions of the before/after values (census class T: trusted because the
    parser bounds the number of values).  This rule decides the producer side: EntityQuery::finalize refuses, on every path
    that accepts a non-empty paging list, a list longer than order_by."""
    C.rule("R8", "the number of before/after values is compared with the number of order_by keys and a longer list is refused before the query is accepted (get_paging indexes order_by by value position)")
    try:
        gp = P.body("query::get_paging")
        fin = P.body("query_parser::EntityQuery::finalize")
    except mir.MissingAnchor as e:
        C.anchor_missing("R8", "get_paging / finalize", e)
        return
    C.saw(gp), C.saw(fin)
    idx = [bi for bi, t in gp.live_calls() if re.search(r"Index>::index$|::index$", callee_name(t)) and field_path(gp.call_args(bi)[0]).endswith(".order_by")]
    C.floor("R8", "order_by[position] sites of get_paging", len(idx), 2)

    def is_paging(t):
        fs = {field_path(x).split(".")[-1] for x in mir.subterms(t) if x[0] == "field"}
        return "after" in fs and "before" in fs

    def len_of(t):
        t = mir.strip(t)
        if t[0] == "call" and re.search(r"Vec::len$|slice::.*len$", t[1]) and t[2]:
            return t[2][0]
        return None
    ra = mir.return_assignments(fin)
    oks = set(ra["Ok"])
    found = None
    for sb in sorted(fin.live_blocks()):
        tt = fin.blocks[sb]["t"]
        if tt["k"] != "switch":
            continue
        term = fin.switch_term(sb, expand_vars=True)
        atom, _ = mir.cond_atoms(term, [0])
        if atom[0] != "bin" or atom[1] not in ("Gt", "Ge", "Lt", "Le"):
            continue
        la, lb = len_of(atom[2]), len_of(atom[3])
        if la is None or lb is None:
            continue
        pa, pb = is_paging(la), is_paging(lb)
        oa, ob = field_path(la).endswith(".order_by"), field_path(lb).endswith(".order_by")
        if not ((pa and ob) or (oa and pb)):
            continue
        # normalise to "paging OP order_by"
        op = atom[1] if pa else {"Gt": "Lt", "Lt": "Gt", "Ge": "Le", "Le": "Ge"}[atom[1]]
        # the edge on which paging > order_by must refuse
        for tg, vals in rights.switch_edges(fin, sb):
            truth = mir.cond_atoms(term, vals)[1]
            too_long_possible = (op == "Gt" and truth is True) or (op == "Le" and truth is False) or (op == "Ge" and truth is True) or (op == "Lt" and truth is False)
            exact = (op == "Gt" and truth is True) or (op == "Le" and truth is False)
            if exact:
                refuses = not (fin.reachable(tg) & oks)
                found = (sb, tg, refuses)
    if found is None:
        C.ob("R8", "paging-length-bounded", False, fin.loc(), "no comparison of the number of before/after values with the number of order_by keys: get_paging would index order_by out of bounds")
        return
    sb, tg, refuses = found
    C.ob("R8", "paging-length-refused", refuses, fin.loc(sb), "more values than order_by keys returns Err")
    # every accepting path with a non-empty paging list passes the comparison
    entries = []
    for b2 in sorted(fin.live_blocks()):
        t2 = fin.blocks[b2]["t"]
        if t2["k"] != "switch":
            continue
        term = fin.switch_term(b2, expand_vars=True)
        atom, _ = mir.cond_atoms(term, [0])
        if atom[0] == "call" and atom[1].endswith("::is_empty") and atom[2] and is_paging(atom[2][0]) and not field_path(mir.strip(atom[2][0])).endswith((".after", ".before")):
            for tg2, vals in rights.switch_edges(fin, b2):
                if mir.cond_atoms(term, vals)[1] is False:
                    entries.append(tg2)
    ok = bool(entries) and all(not (fin.reachable(e, avoid_blocks={sb}) & oks) for e in entries)
    C.ob("R8", "paging-length-on-every-accepting-path", ok, fin.loc(sb), "from the `paging is not empty` edge no Ok exit is reachable without the comparison (%d entry edges)" % len(entries))


def r9_value_kinds(P, C):
    """`_ => unreachable!()` arms of MutationQuery::get_mutate_query (census class T) rest on the mutation parser: for a
    field of a given FieldType it only ever builds certain MutationFieldValue kinds.  Writer's and reader's tables are
    both read from the code and must agree: every (field type, value kind) pair the parser can build has an arm."""
    C.rule("R9", "the (field type, value kind) pairs built by the mutation parser are all handled by an explicit arm of the mutation compiler (the unreachable! arms are unreachable)")
    ft = P.adts.get("database::query_language::FieldType")
    mv = P.adts.get("database::query_language::mutation_parser::MutationFieldValue")
    if ft is None or mv is None:
        C.anchor_missing("R9", "FieldType / MutationFieldValue", "enum not found")
        return
    ALL_FT = [v["name"] for v in ft["variants"]]

    def ft_guard(b, bi):
        """field types possible at block bi (from the dominating matches on a FieldType), None = any"""
        out = None
        for s_, vals, term in b.guards(bi):
            dv = mir.discr_variants(term, vals)
            if not dv or not term[2].endswith("::FieldType"):
                continue
            names = set(x for x in dv[1] if x != "otherwise")
            if "otherwise" in dv[1]:
                tt = b.blocks[s_]["t"]
                table = dict(term[3])
                explicit = {table.get(v) for v, tg in tt["targets"] if tg != tt["otherwise"]}
                names |= set(ALL_FT) - explicit
            out = names if out is None else (out & names)
        return out
    produced = []   # (field types, kind, site)
    for b in P.in_file("src/database/query_language/mutation_parser.rs"):
        if b.from_expansion:
            continue
        hit = False
        for bi in sorted(b.live_blocks()):
            for si, st in enumerate(b.blocks[bi]["s"]):
                rv = st["rv"]
                kind = None
                if st["lhs"][-1:] == [".field_value"] and len(st["lhs"]) > 1:
                    u = mir.strip(b.def_term(bi, si, rv, 0))
                    kind = u[3] if u[0] == "aggr" and u[2].endswith("MutationFieldValue") else "?"
                elif rv["r"] == "aggr" and rv.get("adt", "").endswith("mutation_parser::MutationField") and "field_value" in (rv.get("fields") or []):
                    t = b.def_term(bi, si, rv, 0)
                    u = mir.strip(t[4][t[5].index("field_value")])
                    kind = u[3] if u[0] == "aggr" and u[2].endswith("MutationFieldValue") else "?"
                    if b.id.endswith("MutationField::new"):
                        continue   # placeholder overwritten by every parse_*_type before the field is stored
                if kind is not None:
                    fts = ft_guard(b, bi)
                    produced.append((sorted(fts) if fts is not None else ALL_FT, kind, "%s:%d" % (b.file, st["at"][0])))
                    hit = True
        if hit:
            C.saw(b)
    C.floor("R9", "sites of the mutation parser that build a field value", len(produced), 10)
    try:
        gm = P.body("MutationQuery::get_mutate_query")
    except mir.MissingAnchor as e:
        C.anchor_missing("R9", "get_mutate_query", e)
        return
    C.saw(gm)
    n = 0
    for bi, kind, name, t in panics.sites(P, gm):
        if kind != "unreachable!":
            continue
        arm_ft = ft_guard(gm, bi)
        handled = None
        for s_, vals, term in gm.guards(bi):
            dv = mir.discr_variants(term, vals)
            if dv and term[2].endswith("MutationFieldValue") and "otherwise" in dv[1]:
                tt = gm.blocks[s_]["t"]
                table = dict(term[3])
                handled = {table.get(v) for v, tg in tt["targets"] if tg != tt["otherwise"]}
        if arm_ft is None or handled is None:
            continue
        n += 1
        bad = []
        for fts, k, site in produced:
            common = set(fts) & arm_ft
            if common and k not in handled:
                bad.append("%s builds %s for %s" % (site, k, sorted(common)))
        C.ob("R9", "kinds:%s" % "+".join(sorted(arm_ft)), not bad, gm.loc(bi),
             "fields of type %s: the compiler handles %s, everything else is unreachable!(); the parser builds for these types: %s%s" % (
                 sorted(arm_ft), sorted(handled), sorted({k for fts, k, _ in produced if set(fts) & arm_ft}), "" if not bad else " -- NOT handled: %s" % bad[:3]))
    C.floor("R9", "unreachable! arms of get_mutate_query keyed by field type", n, 4)


def r10_insert_field(P, C):
    """Entity::insert_field panics on a duplicate name (census class T).  Producer side: it has exactly two callers;
    add_field calls it only on the false edge of fields.contains_key(name); update calls it only for the fields left in
    the new definition after every existing field name was taken out of it (a missing one is an Err)."""
    C.rule("R10", "Entity::insert_field is reached only with a name that is absent from the entity: add_field tests contains_key, update removes every existing name from the new definition first")
    sites = P.call_sites(r"data_model_parser::Entity::insert_field$")
    owners = sorted(mir.short(P.owner_fn(cb.id)) for cb, bi, t in sites)
    C.ob("R10", "callers", owners == ["Entity::add_field", "Entity::update"], "src/database/query_language/data_model_parser.rs", "callers of insert_field: %s" % owners, nontrivial=False)
    for cb, bi, t in sites:
        owner = mir.short(P.owner_fn(cb.id))
        C.saw(cb)
        if owner == "Entity::add_field":
            ok = False
            for s_, vals, term in cb.guards(bi, expand_vars=True):
                atom, truth = mir.cond_atoms(term, vals)
                if atom[0] == "call" and atom[1].endswith("HashMap::contains_key") and truth is False and cb.cpath(atom[2][0]) == "‹Entity›.fields":
                    ok = mir.strip(atom[2][1])[0] == "field" and mir.strip(atom[2][1])[2] == "name"
            C.ob("R10", "add_field:absent", ok, cb.loc(bi), "insert_field only on the false edge of self.fields.contains_key(&field.name)")
        elif owner == "Entity::update":
            # the loop over the existing fields removes each of their names from the new definition; None => Err
            ok = False
            for rb, rt in cb.calls_to(r"HashMap::remove$"):
                a = cb.call_args(rb)
                recv = cb.cpath(a[0])
                keyp = mir.full_path(cb, a[1])
                selfname = [n for l, n, lty, lf in cb.named_locals() if lf[0] == "param" and l == 1]
                from_self = bool(selfname) and re.search(r"^%s\.fields\.\[\]" % re.escape(selfname[0]), keyp) is not None
                root = a[0]
                while root[0] in ("ref", "deref", "field"):
                    root = root[1]
                if recv != "‹Entity›.fields" or not from_self or (root[0] == "param" and root[2] == 1):
                    continue   # the map the names are taken out of is the *new* definition, not self
                hdr = rights.enclosing_loop_header(cb, rb)
                if hdr is None:
                    continue
                # every iteration over the existing fields performs the removal (no path back to the loop header skips it) ...
                re_ = mir.result_edges(cb, hdr)
                entry = re_["ok"] if re_ and "ok" in re_ else None
                every = entry is not None and hdr not in cb.reachable(entry, avoid_blocks={rb})
                # ... and the insertion happens after that loop has finished
                after = cb.dominates(hdr, bi) and bi not in {x for x in cb.reach_after(hdr) if hdr in cb.reach_after(x)}
                ok = ok or (every and after)
            C.ob("R10", "update:only-new-names", ok, cb.loc(bi), "insert_field after the loop in which every existing field name is removed from the new definition (no iteration skips the removal)")
        else:
            C.ob("R10", "caller:" + owner, False, cb.loc(bi), "unaudited caller of insert_field")


def paren_delta(a):
    """net number of opening parentheses of a pushed piece (constant text, char, or format! literal parts)"""
    def cnt(txt):
        txt = re.sub(r"'[^']*'", "", txt)
        return txt.count("(") - txt.count(")")
    if a[0] == "const":
        if isinstance(a[1], str):
            return cnt(a[1])
        if isinstance(a[1], int) and a[2] == "char":
            return 1 if a[1] == 40 else -1 if a[1] == 41 else 0
        return 0
    parts = sql.format_parts(a)
    if parts:
        return cnt("".join(x[1] if x[0] == "lit" else "" for x in parts))
    return 0


def straight_region(b, bi):
    """blocks of the straight-line region around bi (single-successor chains, both directions)"""
    succ = b.succs()
    pred = b.preds()
    out = [bi]
    x = bi
    for _ in range(60):
        ss = [s for s in succ[x] if not b.blocks[s]["cl"]]
        if len(ss) != 1 or len([p for p in pred[ss[0]] if p in b.live_blocks()]) != 1:
            break
        x = ss[0]
        out.append(x)
    x = bi
    for _ in range(60):
        ps = [p for p in pred[x] if p in b.live_blocks()]
        if len(ps) != 1 or len(succ[ps[0]]) != 1:
            break
        x = ps[0]
        out.append(x)
    return out


SAFE_TEXT = r"(base64_encode$|uid_encode$|Status::value$|::to_string$)"


def safe_json_text(b, a, depth):
    """the text cannot contain a JSON metacharacter: constant, base64 / uid text, number, fixed status word"""
    a = strip_refs(a)
    if a[0] == "const":
        return True
    if a[0] == "call":
        if re.search(r"base64_encode$|uid_encode$|Status::value$", a[1]):
            return True
        if a[1].endswith("::to_string") and a[2]:
            g = a[4] if len(a) > 4 else ""
            return bool(re.search(r"\b(i64|u64|i32|u32|usize|bool|f64)\b", g))
        if mir.TRANSPARENT.search(a[1]) and a[2]:
            return safe_json_text(b, a[2][0], depth + 1)
        return False
    if a[0] == "var" and depth < 4:
        ds = b.var_defs(a)
        return bool(ds) and all(safe_json_text(b, d, depth + 1) for d in ds)
    if a[0] == "param" and depth < 3:
        P = b.prog
        owner = P.owner_fn(b.id)
        fb = P.bodies.get(owner)
        idx = None
        if fb is not None:
            for l, n in fb.names.items():
                if n == a[1] and 1 <= l <= fb.argc:
                    idx = l - 1
        if idx is None:
            return False
        sites = P.call_sites(re.escape(owner) + "$")
        if not sites:
            return False
        for cb, bi, t in sites:
            args = cb.call_args(bi)
            if idx >= len(args) or not safe_json_text(cb, args[idx], depth + 1):
                return False
        return True
    if a[0] == "upvar" and depth < 3:
        # captured parameter of the enclosing async fn
        P = b.prog
        fb = P.bodies.get(P.owner_fn(b.id))
        if fb is not None:
            for l, n in fb.names.items():
                if n == a[1] and 1 <= l <= fb.argc:
                    return safe_json_text(fb, ("param", n, l), depth)
        return False
    return False


def json_source_ok(b, t):
    u = t
    while u[0] in ("ref", "deref", "cast") or (u[0] == "aggr" and u[3] == "Some" and u[4]):
        u = u[1] if u[0] != "aggr" else u[4][0]
    if u[0] == "aggr" and u[3] == "None":
        return True, "no json"
    if u[0] == "const":
        return True, "constant"
    if mir.has_call(u, r"serde_json::to_string$|serde_json::ser::to_string$") is not None:
        return True, "serde_json::to_string"
    if mir.has_call(u, r"Row.*::get$") is not None:
        return True, "read back from storage"
    parts = sql.format_parts(u)
    if parts is not None:
        bad = []
        for p in parts:
            if p[0] == "hole":
                a = strip_refs(p[1])
                if safe_json_text(b, a, 0):
                    continue
                bad.append(term_str(a)[:40])
        if bad:
            return False, "JSON text formatted by hand with non-constant holes %s: a value containing `\"` or `\\` yields an unreadable row or overrides another field" % bad
        return True, "template with constant / base64 holes"
    if u[0] in ("var", "param", "field", "upvar"):
        return True, "copied from an existing row / parameter (%s)" % field_path(u)
    if u[0] == "phi":
        res = [json_source_ok(b, x) for x in u[1]]
        badr = [r for r in res if not r[0]]
        return (not badr), (badr[0][1] if badr else "all alternatives ok")
    if u[0] == "call":
        return True, "result of %s" % mir.short(u[1])
    return False, "unrecognised producer of JSON text: %s" % term_str(u)[:60]


KINDS = {"variable": "Variable", "float": "Float", "string": "String", "integer": "Integer", "boolean": "Boolean", "null": "Null", "unsigned_int": "Integer"}


def _pest_rules(path):
    try:
        txt = open(path).read()
    except OSError:
        return {}
    txt = re.sub(r'"(?:\\.|[^"\\])*"', lambda m: '"' + " " * (len(m.group(0)) - 2) + '"', txt)
    txt = re.sub(r"'(?:\\.|[^'\\])'", "   ", txt)
    txt = re.sub(r"//[^\n]*", "", txt)
    rules = {}
    for m in re.finditer(r"(?m)^\s*(\w+)\s*=\s*[_@$!]?\{", txt):
        i = m.end()
        depth = 1
        j = i
        while j < len(txt) and depth:
            if txt[j] == "{":
                depth += 1
            elif txt[j] == "}":
                depth -= 1
            j += 1
        rules[m.group(1)] = txt[i:j - 1]
    return rules


def _pest_kinds(rules, name, depth=0):
    """value kinds a grammar rule can produce (through at most 3 levels of rule references)"""
    out = set()
    body = re.sub(r'"[^"]*"', " ", rules.get(name, ""))
    for ident in re.findall(r"[A-Za-z_][A-Za-z_0-9]*", body):
        if ident in KINDS:
            out.add(ident)
        elif ident in rules and depth < 3 and ident != name and re.search(r"value|literal|scalar", ident):
            out |= _pest_kinds(rules, ident, depth + 1)
    return out


def r11_grammar_value_kinds(P, C):
    import facts as _facts
    C.rule("R11", "the grammar and the parser agree on the kinds of value a before/after cursor can hold: every kind the grammar rule of the clause can produce has an "
                  "explicit arm in the type check of EntityQuery::finalize (its catch-all arm is unreachable!: a kind the grammar lets through, e.g. null, panics "
                  "inside the database task and no later request is answered)")
    repo = P.facts.get("repo_root") if hasattr(P, "facts") and isinstance(getattr(P, "facts", None), dict) and P.facts.get("repo_root") else _facts.REPO
    try:
        fin = P.body("query_parser::EntityQuery::finalize")
    except mir.MissingAnchor as e:
        C.anchor_missing("R11", "finalize", e)
        return
    root = repo
    rules = _pest_rules(os.path.join(root, "src/database/query_language/query.pest"))
    if not rules or "before" not in rules or "after" not in rules:
        C.anchor_missing("R11", "query.pest", "grammar rules before/after not found")
        return
    # handled kinds: the switch on the ParamValue of a cursor value whose other edge panics
    handled = None
    for sb in sorted(fin.live_blocks()):
        t = fin.blocks[sb]["t"]
        if t["k"] != "switch":
            continue
        term = fin.switch_term(sb, expand_vars=True)
        if term[0] != "discr" or not term[2].endswith("ParamValue"):
            continue
        # the matched value is an element of the cursor list: a collection defined as `&<params>.before` / `&<params>.after`
        is_cursor = re.search(r"\.(before|after)\b", term_str(term)) is not None
        for sx in mir.subterms(term[1]):
            if sx[0] == "var" and len(sx) > 2:
                col = mir.elem_collection(fin, sx)
                cols = [col] if col is not None else []
                if col is not None and col[0] == "var" and len(col) > 2:
                    cols = fin.var_defs(col)
                if any(re.search(r"\.(before|after)$", field_path(strip_refs(c_))) for c_ in cols):
                    is_cursor = True
        if not is_cursor:
            continue
        table = dict(term[3])
        explicit = {table.get(v) for v, tg in t["targets"]}
        other = t["otherwise"]
        panics_ = any(fin.blocks[x]["t"]["k"] == "call" and re.search(r"panicking::|panic", callee_name(fin.blocks[x]["t"])) for x in fin.reachable(other) if x not in fin.reachable(0, avoid_blocks={other}) or True) if other is not None else False
        # blocks reachable from `other` only: a panic call right there
        first = fin.blocks[other]["t"] if other is not None else None
        is_panic_arm = first is not None and ((first["k"] == "call" and re.search(r"panic|unreachable", callee_name(first))) or first["k"] == "unreachable")
        if is_panic_arm:
            handled = explicit if handled is None else (handled & explicit)
    if handled is None:
        C.ob("R11", "paging-type-check-found", False, fin.loc(), "no match on the ParamValue of a cursor value with a panicking catch-all arm was found in finalize (re-point the rule)")
        return
    for clause in ("before", "after"):
        kinds = _pest_kinds(rules, clause)
        unhandled = sorted(k for k in kinds if KINDS[k] not in handled and k != "variable")
        C.ob("R11", "cursor-kinds-handled:%s" % clause, bool(kinds) and not unhandled, "src/database/query_language/query.pest",
             "grammar kinds of a `%s` value: %s; explicit arms of the type check: %s; kinds that reach unreachable!(): %s" % (clause, sorted(kinds), sorted(x for x in handled if x), unhandled or "none"))


def r12_finite_floats(P, C):
    C.rule("R12", "every request that is valid for the language executes: a float literal accepted by a parser is finite -- `1.0e999` parses to `inf`, which the query "
                  "compiler writes as the bare word `inf` into the statement (`no such column: inf`) and which a data model default carries into every later query; "
                  "each ParamValue::Float built from parsed text is control-dependent on f64::is_finite")
    n = 0
    for b in sorted(P.bodies.values(), key=lambda x: x.id):
        if "database::query_language::" not in b.id or "::tests::" in b.id or "_test::" in b.id:
            continue
        for bi in sorted(b.live_blocks()):
            for si, st in enumerate(b.blocks[bi]["s"]):
                rv = st["rv"]
                if not (rv["r"] == "aggr" and (rv.get("adt") or "").endswith("ParamValue") and rv.get("variant") == "Float"):
                    continue
                t = b.def_term(bi, si, rv, 0, expand_vars=True)
                if mir.has_call(t, r"str::parse$|::from_str$") is None:
                    continue
                n += 1
                finite = False
                for s_, vals, term in b.implied_guards(bi, expand_vars=True):
                    atom, truth = mir.cond_atoms(term, vals)
                    if atom[0] == "call" and re.search(r"f64::is_finite$", atom[1]) and truth is True:
                        finite = True
                    if atom[0] == "call" and re.search(r"f64::(is_nan|is_infinite)$", atom[1]) and truth is False:
                        pass
                C.ob("R12", "float-literal-finite:%s#%d" % (mir.short(b.id), len([1 for o in C.obligations if o["key"].startswith("C14/R12/float-literal-finite:%s#" % mir.short(b.id))])),
                     finite, b.loc(bi), "ParamValue::Float(parsed text) %s" % ("only when the parsed number is finite" if finite else "without a finiteness test: a literal like 1.0e999 becomes `inf`"))
    C.floor("R12", "float literals built from parsed text", n, 3)
