"""C15 — changing the data model never loses data and a refused change changes nothing."""
import re
import mir
from mir import term_str, strip_refs, callee_name, field_path, full_path
from rules import rights

POSITIONAL = r"data_model_parser::(Entity::insert_field|DataModel::insert)$"
HASH_ITER = re.compile(r"(hash_map|hash::map|hash_set|hash::set|HashMap|HashSet)")
UPDATES = r"data_model_parser::DataModel::(update|update_system|update_with)$"


def top_level_args(ga):
    """split the generic-argument list `[A, B, C]` at top-level commas"""
    ga = ga.strip()
    if ga.startswith("[") and ga.endswith("]"):
        ga = ga[1:-1]
    out, depth, cur = [], 0, ""
    for ch in ga:
        if ch in "([<{":
            depth += 1
        elif ch in ")]>}":
            depth -= 1
        if ch == "," and depth == 0:
            out.append(cur)
            cur = ""
        else:
            cur += ch
    if cur.strip():
        out.append(cur)
    return out


def enclosing_loops(b, bi):
    """[(header block, iterator self type)] of the `for` loops containing block bi"""
    out = []
    for d in b.dom_chain(bi):
        t = b.blocks[d]["t"]
        if t["k"] == "call" and "d:ForLoop" in t["at"][1] and callee_name(t).endswith("::next"):
            if d in b.reach_after(bi) or d == bi:
                out.append((d, t.get("self") or t.get("ga") or ""))
    return out


def err_variants(b):
    """Error enum variants constructed in a body whose construction block leads only to an Err return"""
    out = {}
    for bi in sorted(b.live_blocks()):
        for st in b.blocks[bi]["s"]:
            rv = st["rv"]
            if rv["r"] == "aggr" and rv.get("adt", "").endswith("Error"):
                out.setdefault(rv["variant"], []).append(bi)
    # an error built inside a closure of the body (`.ok_or_else(|| Error::X(..))?`, `.map_err(|e| ..)?`) is reported at the
    # block that creates the closure
    for bi in sorted(b.live_blocks()):
        for st in b.blocks[bi]["s"]:
            rv = st["rv"]
            if rv["r"] == "aggr" and rv.get("kind") == "closure":
                cb = b.prog.bodies.get(rv.get("def") or rv.get("adt") or "")
                if cb is None:
                    continue
                for cbi in sorted(cb.live_blocks()):
                    for cst in cb.blocks[cbi]["s"]:
                        crv = cst["rv"]
                        if crv["r"] == "aggr" and crv.get("adt", "").endswith("Error"):
                            out.setdefault(crv["variant"], []).append(bi)
    return out


def run(P, C, tier):
    C.explanation = (
        "Static decision of the structural preconditions of C15: positional identifiers (entity and field short names are "
        "`len()` at insertion) are never assigned inside an iteration over a hash table, so they depend only on the sequence of "
        "accepted versions; the fallible in-place model update is applied to a copy and the live model, the stored model and the "
        "index statements change only after both updates returned Ok; each compatibility rule of the property has its refusing "
        "exit. Readability of old rows (values) is not decided.")
    C.rule("R1", "no call assigning a positional identifier (Entity::insert_field, DataModel::insert) or feeding a digest (Hasher::update) is inside a loop driven by a HashMap/HashSet iterator")
    C.rule("R2", "DataModel::update / update_system are applied to a local copy; GraphDatabase.data_model is assigned only after both returned Ok")
    C.rule("R3", "the serialised model and the index statements are written only after both updates returned Ok")
    C.rule("R4", "each compatibility rule has a refusing exit in Entity::update / DataModel::update_with")
    # ---- R1
    n = 0
    for b, bi, t in P.call_sites(POSITIONAL):
        n += 1
        loops = enclosing_loops(b, bi)
        hashed = [(h, ty) for h, ty in loops if HASH_ITER.search(ty)]
        C.saw(b)
        C.ob("R1", "positional-id:%s<-%s" % (callee_name(t).split("::")[-1], mir.short(b.id)), not hashed, b.loc(bi),
             "identifier = len() at this call; enclosing loops iterate %s%s" % ([ty[:60] for _, ty in loops] or "nothing",
             " -- hash order decides the identifiers: two peers applying the same versions disagree" if hashed else ""))
    C.floor("R1", "positional identifier call sites", n, 3)
    # when the items to number come out of a hash table they must be put back in declaration order first:
    # the collection iterated at the call must have been sorted by a *numeric* key
    for b, bi, t in P.call_sites(POSITIONAL):
        loops = enclosing_loops(b, bi)
        for h, ty in loops:
            it = b.blocks[h]["t"]
            a = b.call_args(h)
            col = None
            v = mir.strip_refs(a[0]) if a else None
            if v is not None and v[0] == "var":
                for d in b.var_defs(v):
                    x = d
                    for _ in range(6):
                        while x[0] in ("ref", "deref"):
                            x = x[1]
                        if x[0] == "call" and x[2] and (mir.ITER_ADAPTOR.search(x[1]) or mir.TRANSPARENT.search(x[1])):
                            x = x[2][0]
                        else:
                            break
                    col = x
            if col is None or col[0] != "var":
                continue
            from_hash = any(mir.has_call(d, r"(HashMap|hash_map|HashSet).*::(into_iter|iter|drain|into_values|values)$|::collect$") is not None for d in b.var_defs(col))
            if not from_hash:
                continue
            sorts = []
            for sb, stt in b.live_calls():
                n2 = callee_name(stt)
                if re.search(r"::(sort_by_key|sort_by|sort_unstable_by_key|sort_unstable_by|sort|sort_by_cached_key)$", n2):
                    recv = mir.strip(b.call_args(sb)[0])
                    if recv[:3] == col[:3] and b.dominates(sb, h):
                        sorts.append((sb, n2, stt.get("ga", "")))
            numeric = False
            how = "not sorted"
            for sb, n2, ga in sorts:
                how = "%s%s" % (n2.split("::")[-1], ga)
                if n2.endswith("_by_key"):
                    tops = top_level_args(ga)
                    if len(tops) > 1 and re.fullmatch(r"(usize|u32|u64|i64|i32|u16|u8|isize)", tops[1].strip()):
                        numeric = True
                if n2.endswith("sort_by") or n2.endswith("sort_unstable_by"):
                    # comparator closure: compares parsed integers?
                    cl = b.call_args(sb)[1]
                    cb = P.bodies.get(cl[2]) if cl[0] == "aggr" and cl[1] == "closure" else None
                    if cb is not None:
                        cmps = cb.calls_to(r"::cmp$")
                        for cbi, ct in cmps:
                            st_ = (ct.get("self") or "") + (ct.get("ga") or "")
                            if re.search(r"\b(usize|u32|u64|i64|i32)\b", st_):
                                numeric = True
            C.ob("R1", "declaration-order:%s<-%s" % (callee_name(t).split("::")[-1], mir.short(b.id)), numeric, b.loc(h),
                 "items taken out of a hash table are numbered in the order of `%s`: the key must be the numeric declaration position (a string comparison of positions puts \"100\" before \"99\")" % how)
    nh = 0
    for b, bi, t in P.call_sites(r"blake3::Hasher::update$"):
        loops = enclosing_loops(b, bi)
        hashed = [(h, ty) for h, ty in loops if HASH_ITER.search(ty)]
        nh += 1
        C.ob("R1", "digest-input:%s#%d" % (mir.short(b.id), len([o for o in C.obligations if o["key"].startswith("C15/R1/digest-input:%s#" % mir.short(b.id))])), not hashed, b.loc(bi),
             "digest input independent of hash-table order", nontrivial=bool(loops))
    C.floor("R1", "digest update sites", nh, 20)
    # the identifiers themselves are len()-based (the premise of the rule)
    for fn in ("data_model_parser::Entity::insert_field", "data_model_parser::DataModel::insert"):
        try:
            b = P.body(fn)
            C.saw(b)
            C.ob("R1", "premise:" + fn.split("::")[-1], bool(b.calls_to(r"HashMap::len$")), b.loc(), "short name computed from the current len()", nontrivial=False)
        except mir.MissingAnchor as e:
            C.anchor_missing("R1", fn, e)
    # ---- R2 / R3
    try:
        u = P.body("GraphDatabase::update_data_model::{closure#0}")
        C.saw(u)
        ups = u.calls_to(UPDATES)
        C.floor("R2", "model update calls", len(ups), 2)
        oks = []
        for bi, t in ups:
            recv = u.call_args(bi)[0]
            p = field_path(recv)
            live = p.endswith("self.data_model")
            re_ = mir.result_edges(u, bi)
            C.ob("R2", "on-copy:" + callee_name(t).split("::")[-1], not live and re_ is not None, u.loc(bi),
                 "fallible in-place update applied to %s%s" % (p, " -- the running model is modified before the version is accepted; a refused version leaves it half-updated" if live else ""))
            if re_ is not None:
                oks.append(re_["ok"])
        # stores to self.data_model
        stores = []
        for bi in sorted(u.live_blocks()):
            for si, st in enumerate(u.blocks[bi]["s"]):
                lhs = st["lhs"]
                if lhs[-1:] == [".data_model"]:
                    stores.append((bi, si, st))
        for bi, si, st in stores:
            t = u.def_term(bi, si, st["rv"], 0)
            dom = bool(oks) and all(u.dominates(o, bi) for o in oks)
            C.ob("R2", "live-model-assigned-after-acceptance#%d" % stores.index((bi, si, st)), dom, "%s:%d" % (u.file, st["at"][0]),
                 "self.data_model := %s only after update_system? and update? succeeded" % term_str(t)[:60])
        C.ob("R2", "live-model-assigned", len(stores) >= 1, u.loc(), "the accepted model replaces the live one", nontrivial=False)
        ws = u.calls_to(r"BufferedDatabaseWriter::write$")
        for bi, t in ws:
            dom = bool(oks) and all(u.dominates(o, bi) for o in oks)
            C.ob("R3", "persist-after-acceptance", dom, u.loc(bi), "the Serialized model (and its index statements) is written only after both updates returned Ok")
        C.floor("R3", "persist sites", len(ws), 1)
    except mir.MissingAnchor as e:
        C.anchor_missing("R2", "update_data_model", e)
    # ---- R2 (storage): a version refused when it is stored (index statements, configuration row) must not become the running model
    try:
        u = P.body("GraphDatabase::update_data_model::{closure#0}")
        ws = u.calls_to(r"BufferedDatabaseWriter::write$")
        w_ok = []
        for bi, t in ws:
            re_ = mir.result_edges(u, bi)
            if re_ is not None:
                w_ok.append(re_["ok"])
        stores = []
        for bi in sorted(u.live_blocks()):
            for si, st in enumerate(u.blocks[bi]["s"]):
                if st["lhs"][-1:] == [".data_model"]:
                    stores.append((bi, st))
        for n, (bi, st) in enumerate(stores):
            dom = bool(w_ok) and all(u.dominates(o, bi) for o in w_ok)
            C.ob("R2", "live-model-assigned-after-storage#%d" % n, dom, "%s:%d" % (u.file, st["at"][0]),
                 "self.data_model is replaced only on the Ok edge of the storage write: %s%s" % (dom, "" if dom else
                 " -- a version whose storage fails (e.g. entities `Person` and `person` with the same index: SQLite index names are case-insensitive) is refused and rolled back, yet stays the running model"))
    except mir.MissingAnchor as e:
        C.anchor_missing("R2", "update_data_model", e)
    # ---- R5: a refused version is reported to the caller
    C.rule("R5", "a refused version is reported: the API method inspects (propagates or returns) the Result carried by the reply of the update request")
    try:
        from rules import replies
        sites = replies.reply_sites(P, lambda b: b.id.endswith("GraphDatabaseService::update_data_model::{closure#0}"))
        C.floor("R5", "reply of the model update request", len(sites), 1)
        for n, (b, bi) in enumerate(sites):
            k = replies.payload_uses(b, bi)
            C.ob("R5", "refusal-reported#%d" % n, bool(k), b.loc(bi), "the Result<String, Error> answered by the database task is %s" % (", ".join(sorted(k)) if k else
                 "dropped without being looked at: a refused live update returns Ok with the unchanged model"))
    except mir.MissingAnchor as e:
        C.anchor_missing("R5", "GraphDatabaseService::update_data_model", e)
    # ---- R6: statements compiled against the old model are not reused
    C.rule("R6", "new fields read as their default and values keep their names after an accepted version: every cache of requests compiled against the model "
                 "(the LruCache fields of GraphDatabase) is cleared on the accepting path of a model update")
    try:
        gd = P.adts.get("database::graph_database::GraphDatabase")
        caches = [f["name"] for f in gd["variants"][0]["fields"] if "LruCache<" in f["ty"]] if gd else []
        C.floor("R6", "request caches of GraphDatabase", len(caches), 3)
        u = P.body("GraphDatabase::update_data_model::{closure#0}")
        loop_ = P.body("GraphDatabaseService::start::{closure#0}::{closure#0}", required=False) or None
        cleared = {}
        for cb, cbi, ct in P.call_sites(r"LruCache.*::clear$"):
            if cb.blocks[cbi]["cl"]:
                continue
            f = field_path(strip_refs(cb.call_args(cbi)[0])).split(".")[-1]
            cleared.setdefault(f, []).append((cb, cbi))
        for c in caches:
            ok = False
            where = "never cleared"
            for cb, cbi in cleared.get(c, []):
                if cb.id == u.id:
                    # inside the update itself: after acceptance (both updates Ok)
                    oks_ = [mir.result_edges(u, bi)["ok"] for bi, t in u.calls_to(UPDATES) if mir.result_edges(u, bi)]
                    if oks_ and all(u.dominates(o, cbi) for o in oks_):
                        ok, where = True, "in update_data_model after acceptance"
                else:
                    # on the Ok arm of the update's result in the request loop: directly, or in a helper called there
                    sites_ = [(cb, cbi)] + [(hb, hbi) for hb, hbi, ht in P.call_sites(re.escape(mir.short(cb.id)) + "$")]
                    for hb, hbi in sites_:
                        for s_, vals, term in hb.guards(hbi, expand_vars=True):
                            dv = mir.discr_variants(term, vals)
                            if dv and dv[1] == ["Ok"] and mir.has_call(dv[0], r"GraphDatabase::update_data_model$") is not None:
                                ok, where = True, "on the Ok arm of update_data_model in %s" % mir.short(hb.id)
            C.ob("R6", "cache-cleared:%s" % c, ok, u.loc(), "%s: %s%s" % (c, where, "" if ok else
                 " -- a request text cached before the update keeps running with the old model's statement (old default value, fields added later not default-filled)"))
    except mir.MissingAnchor as e:
        C.anchor_missing("R6", "caches", e)
    # ---- R4
    want = {
        "data_model_parser::Entity::update": ["InvalidFieldOrdering", "CannotUpdateFieldType", "MissingDefaultValue", "MissingField"],
        "data_model_parser::DataModel::update_with": ["NamespaceUpdate", "InvalidNamespaceOrdering", "InvalidEntityOrdering", "MissingEntity", "MissingNamespace"],
    }
    for fn, errs in want.items():
        try:
            b = P.body(fn)
            C.saw(b)
            ev = err_variants(b)
            for e in errs:
                C.ob("R4", "%s:%s" % (fn.split("::")[-1] if "Entity" not in fn else "Entity::update", e), e in ev, b.loc(ev[e][0]) if e in ev else b.loc(), "refusing exit %s present" % e, nontrivial=False)
            if fn.endswith("Entity::update"):
                C.ob("R4", "Entity::update:MissingDefaultValue-twice", len(ev.get("MissingDefaultValue", [])) >= 2, b.loc(), "both `nullable -> not null` and `new not-null field` require a default")
                # the type comparison is on field_type and the short-name comparison on short_name
                eqs = [(bi, [field_path(a) for a in b.call_args(bi)]) for bi, t in b.calls_to(r"::eq$")]
                C.ob("R4", "Entity::update:compares-short-name", any(all(p.endswith("short_name") for p in ps) for _, ps in eqs), b.loc(), "stored and new short name compared")
                C.ob("R4", "Entity::update:compares-type", any(all(p.endswith("field_type") for p in ps) for _, ps in eqs), b.loc(), "stored and new field type compared")
        except mir.MissingAnchor as e:
            C.anchor_missing("R4", fn, e)
