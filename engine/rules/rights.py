"""Shared analysis of the rights decisions (Room::can / is_admin / can_admin_users call sites).

Used by C01 (local writes), C02 (rows from peers) and C12 (agreement of the two paths)."""
import re
import mir
from mir import term_str, strip, strip_refs, callee_name, field_path

DECISIONS = r"database::room::(Room::can|Room::is_admin|Authorisation::can_admin_users)$"
AUTH_FILE = "src/database/authorisation_service.rs"


def switch_edges(body, sb):
    """[(target, vals)] of a switch block, grouping values by target"""
    t = body.blocks[sb]["t"]
    by = {}
    for v, tg in t["targets"]:
        by.setdefault(tg, []).append(v)
    by.setdefault(t["otherwise"], []).append("otherwise")
    return list(by.items())


def decision_switches(body, call_block):
    """switch blocks whose (variable-expanded) condition contains the result of the call in call_block.
    -> [(switch block, true_target, false_target)] with polarity normalised through `!`"""
    out = []
    for sb in sorted(body.live_blocks()):
        t = body.blocks[sb]["t"]
        if t["k"] != "switch":
            continue
        term = body.switch_term(sb, expand_vars=True)
        if term[0] == "discr":
            continue
        hit = False
        for s in mir.subterms(term):
            if s[0] == "call" and s[3] == call_block:
                hit = True
                break
        if not hit:
            continue
        tt = ft = None
        for tg, vals in switch_edges(body, sb):
            atom, truth = mir.cond_atoms(term, vals)
            if truth is True:
                tt = tg
            elif truth is False:
                ft = tg
        out.append((sb, tt, ft))
    return out


def enclosing_loop_header(body, bi):
    """the innermost `for` loop header (block calling Iterator::next with a ForLoop desugaring) that
    dominates bi and is reachable again from bi, else None"""
    best = None
    for d in body.dom_chain(bi):
        t = body.blocks[d]["t"]
        if t["k"] == "call" and "d:ForLoop" in t["at"][1] and callee_name(t).endswith("::next"):
            if d in body.reach_after(bi):
                best = d
                break
    return best


REJECT_LISTS = {"invalid", "invalid_node", "invalid_nodes"}
ACCEPT_CALLS = r"(Vec::push$|BufferedDatabaseWriter::send$|RoomAuthorisations::add_room$|VecDeque::push_back$)"


FILTER_FNS = ("AuthorisationService::process_message::{closure#0}", "RoomAuthorisations::validate_edge_deletions",
              "RoomAuthorisations::validate_node_deletions")


def refusal_region(body, call_block, false_target):
    """blocks reachable from the refusing edge.  In the filter loops (FILTER_FNS: a row is accepted by being
    pushed to a list) `continue` is a refusal, so the region stops at the enclosing loop header; everywhere else
    going on with the next iteration means the entry was accepted, so the region is not cut."""
    hdr = None
    if any(body.id.endswith(f) for f in FILTER_FNS):
        hdr = enclosing_loop_header(body, call_block)
    avoid = {hdr} if hdr is not None else set()
    return body.reachable(false_target, avoid_blocks=avoid), hdr


def check_refusal(body, call_block, accept_lists=None):
    """Decide rule R1 for one decision call.  Returns (ok, detail)."""
    sws = decision_switches(body, call_block)
    if not sws:
        return False, "the decision result never reaches a branch"
    ra = mir.return_assignments(body)
    good_exit = set(ra["Ok"]) | set(ra["true"])
    details = []
    ok = True
    for sb, tt, ft in sws:
        if ft is None:
            ok = False
            details.append("switch bb%d has no refusing edge" % sb)
            continue
        region, hdr = refusal_region(body, call_block, ft)
        bad_exit = region & good_exit
        accepts = []
        for bi in region:
            t = body.blocks[bi]["t"]
            if t["k"] == "call" and re.search(ACCEPT_CALLS, callee_name(t)):
                a = body.call_args(bi)
                tgt = field_path(a[0])
                if tgt.split(".")[-1] in REJECT_LISTS:
                    continue
                if accept_lists is None or tgt.split(".")[-1] in accept_lists:
                    accepts.append("%s@%s" % (tgt, body.loc(bi)))
        refuses = bool(region & (set(ra["Err"]) | set(ra["false"]) | set(ra["residual"]))) or hdr is not None
        if bad_exit or accepts or not refuses:
            ok = False
        details.append("refusing edge bb%d->bb%d: success exit reachable=%s, accept effects=%s, refuses=%s%s" % (
            sb, ft, bool(bad_exit), accepts or "none", refuses, " (continue of loop bb%d)" % hdr if hdr is not None else ""))
    return ok, "; ".join(details)


def right_of(term):
    t = strip_refs(term)
    if t[0] == "aggr" and t[2].endswith("RightType"):
        return t[3]
    if t[0] == "phi":
        rs = {right_of(x) for x in t[1]}
        if len(rs) == 1:
            return rs.pop()
        return "phi"
    if t[0] == "var":
        return "var:" + t[1]
    return None


def room_key_of(body, recv_term):
    """field path of the key used in self.rooms.get(K) that produced the Room receiver, or None"""
    c = mir.has_call(recv_term, r"HashMap::get$")
    if c is None:
        return None, None
    if not mir.mentions(c[2][0], "rooms"):
        return None, None
    return field_path(c[2][1]), c[2][1]


def author_eq(guards, actor_paths=None):
    """the truth value of a dominating author comparison eq(old author, actor), or None.
    Recognised by one side being a previous-author term."""
    for s, vals, term in guards:
        atom, truth = mir.cond_atoms(term, vals)
        if atom[0] == "call" and atom[1].endswith("::eq") and len(atom[2]) == 2 and truth is not None:
            paths = [field_path(a) for a in atom[2]]
            if any(is_prev_author(p) for p in paths):
                return truth, paths
    return None, None


PREV_AUTHOR = re.compile(r"(old_node\.verifying_key|old_verifying_key|old_key|edge_author|author|node\.node\.verifying_key|edge\.edge\.verifying_key|entry\.1)$")


def is_prev_author(path):
    return bool(PREV_AUTHOR.search(path))


def room_ineq(guards):
    """a dominating `old room != new room` test: returns (paths) when an eq between two room ids is False"""
    for s, vals, term in guards:
        atom, truth = mir.cond_atoms(term, vals)
        if atom[0] == "call" and atom[1].endswith("::eq") and len(atom[2]) == 2 and truth is False:
            paths = [field_path(a) for a in atom[2]]
            if all("room_id" in p for p in paths):
                return paths
    return None


def can_sites(P, body):
    """analyse every decision call of a body"""
    out = []
    for bi, t in body.calls_to(DECISIONS):
        name = callee_name(t).rsplit("::", 1)[-1]
        args = body.call_args(bi, expand_vars=True)
        g = body.guards(bi, expand_vars=True)
        info = {"body": body, "block": bi, "kind": name, "args": args, "guards": g, "loc": body.loc(bi)}
        if name == "can":
            info["right"] = right_of(args[4])
            info["user"] = field_path(args[1])
            info["entity"] = field_path(args[2])
            info["date"] = field_path(args[3])
        else:
            info["right"] = None
            info["user"] = field_path(args[1])
            info["date"] = field_path(args[2])
        key, kterm = room_key_of(body, args[0])
        info["room_key"] = key
        eq, paths = author_eq(g)
        info["author_eq"] = eq
        info["author_eq_paths"] = paths
        info["room_ineq"] = room_ineq(g)
        out.append(info)
    return out


def right_var_defs(body, varname):
    """for `let required_right = match .. {..}`: [(right, author_eq truth, block)] per assignment"""
    out = []
    for l, n in body.names.items():
        if n != varname:
            continue
        for (bi, si, rv, lhs) in body.defs().get(l, ()):
            if si is None or len(lhs) != 1:
                continue
            term = body.def_term(bi, si, rv, 0)
            r = right_of(term)
            if r is None:
                continue
            g = body.guards(bi, expand_vars=True)
            eq, paths = author_eq(g)
            out.append((r, eq, bi, paths))
    return out


def str_match_arms(body, subject_suffix):
    """switches of the form eq(<subject>, "const") : {const: (switch block, true target)}"""
    out = {}
    for sb in sorted(body.live_blocks()):
        t = body.blocks[sb]["t"]
        if t["k"] != "switch":
            continue
        term = body.switch_term(sb, expand_vars=False)
        if term[0] == "call" and term[1].endswith("::eq") and len(term[2]) == 2:
            a, b2 = term[2]
            c = strip_refs(b2)
            if c[0] == "const" and isinstance(c[1], str) and field_path(a).endswith(subject_suffix):
                tt = None
                for tg, vals in switch_edges(body, sb):
                    atom, truth = mir.cond_atoms(term, vals)
                    if truth is True:
                        tt = tg
                out[c[1]] = (sb, tt)
    return out
