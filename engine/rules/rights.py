"""Shared analysis of the rights decisions (Room::can / is_admin / can_admin_users call sites).

Used by C01 (local writes), C02 (rows from peers) and C12 (agreement of the two paths)."""
import re
import mir
from mir import term_str, strip, strip_refs, callee_name, field_path

DECISIONS = r"database::room::(Room::can|Room::is_admin|Authorisation::can_admin_users)$"
AUTH_FILE = "src/database/authorisation_service.rs"


def switch_edges(body, sb):
    """[(target, vals)] of a switch block, grouping values by target"""
    t = body.blocks[sb]["t"]
    by = {}
    for v, tg in t["targets"]:
        by.setdefault(tg, []).append(v)
    by.setdefault(t["otherwise"], []).append("otherwise")
    return list(by.items())


def decision_switches(body, call_block):
    """switch blocks whose (variable-expanded) condition contains the result of the call in call_block.
    -> [(switch block, true_target, false_target)] with polarity normalised through `!`"""
    out = []
    for sb in sorted(body.live_blocks()):
        t = body.blocks[sb]["t"]
        if t["k"] != "switch":
            continue
        term = body.switch_term(sb, expand_vars=True)
        if term[0] == "discr":
            continue
        hit = False
        for s in mir.subterms(term):
            if s[0] == "call" and s[3] == call_block:
                hit = True
                break
        if not hit:
            continue
        tt = ft = None
        for tg, vals in switch_edges(body, sb):
            atom, truth = mir.cond_atoms(term, vals)
            if truth is True:
                tt = tg
            elif truth is False:
                ft = tg
        out.append((sb, tt, ft))
    return out


def enclosing_loop_header(body, bi):
    """the innermost `for` loop header (block calling Iterator::next with a ForLoop desugaring) that
    dominates bi and is reachable again from bi, else None"""
    best = None
    for d in body.dom_chain(bi):
        t = body.blocks[d]["t"]
        if t["k"] == "call" and "d:ForLoop" in t["at"][1] and callee_name(t).endswith("::next"):
            if d in body.reach_after(bi):
                best = d
                break
    return best


ACCEPT_CALLS = r"(Vec::push$|BufferedDatabaseWriter::send$|RoomAuthorisations::add_room$|VecDeque::push_back$)"


FILTER_FNS = ("AuthorisationService::process_message::{closure#0}", "RoomAuthorisations::validate_edge_deletions",
              "RoomAuthorisations::validate_node_deletions")


def refusal_region(body, call_block, false_target):
    """blocks reachable from the refusing edge.  In the filter loops (FILTER_FNS: a row is accepted by being
    pushed to a list) `continue` is a refusal, so the region stops at the enclosing loop header; everywhere else
    going on with the next iteration means the entry was accepted, so the region is not cut."""
    hdr = None
    if any(body.id.endswith(f) for f in FILTER_FNS):
        hdr = enclosing_loop_header(body, call_block)
    avoid = {hdr} if hdr is not None else set()
    return body.reachable(false_target, avoid_blocks=avoid), hdr


def check_refusal(body, call_block, accept_lists=None):
    """Decide rule R1 for one decision call.  Returns (ok, detail)."""
    sws = decision_switches(body, call_block)
    if not sws:
        return False, "the decision result never reaches a branch"
    ra = mir.return_assignments(body)
    good_exit = set(ra["Ok"]) | set(ra["true"])
    details = []
    ok = True
    for sb, tt, ft in sws:
        if ft is None:
            ok = False
            details.append("switch bb%d has no refusing edge" % sb)
            continue
        region, hdr = refusal_region(body, call_block, ft)
        bad_exit = region & good_exit
        accepts = []
        for bi in region:
            t = body.blocks[bi]["t"]
            if t["k"] == "call" and re.search(ACCEPT_CALLS, callee_name(t)):
                a = body.call_args(bi)
                tgt = field_path(a[0])
                # a list of identifiers (Vec<Uid>) records rejected rows; accepted rows are pushed as rows
                if any(body.id.endswith(f) for f in FILTER_FNS) and callee_name(t).endswith("Vec::push") \
                        and re.search(r"^Vec<\[u8; 16\]>$", mir.short_type(body.root_type(mir.strip(a[0])))):
                    continue
                if accept_lists is None or tgt.split(".")[-1] in accept_lists:
                    accepts.append("%s@%s" % (tgt, body.loc(bi)))
        refuses = bool(region & (set(ra["Err"]) | set(ra["false"]) | set(ra["residual"]))) or hdr is not None
        if bad_exit or accepts or not refuses:
            ok = False
        details.append("refusing edge bb%d->bb%d: success exit reachable=%s, accept effects=%s, refuses=%s%s" % (
            sb, ft, bool(bad_exit), accepts or "none", refuses, " (continue of loop bb%d)" % hdr if hdr is not None else ""))
    return ok, "; ".join(details)


def right_of(term):
    t = strip_refs(term)
    if t[0] == "aggr" and t[2].endswith("RightType"):
        return t[3]
    if t[0] == "phi":
        rs = {right_of(x) for x in t[1]}
        if len(rs) == 1:
            return rs.pop()
        return "phi"
    if t[0] == "var":
        return "var:right"       # a variable of type RightType: its assignments are analysed by right_var_defs
    return None


def room_key_of(body, recv_term):
    """field path of the key used in self.rooms.get(K) that produced the Room receiver, or None"""
    c = mir.has_call(recv_term, r"HashMap::get$")
    if c is None:
        return None, None
    if not mir.mentions(c[2][0], "rooms"):
        return None, None
    return body.cpath(c[2][1]), c[2][1]


def author_eq(guards, actor_paths=None, body=None):
    """the truth value of a dominating author comparison eq(old author, actor), or None.
    Recognised by one side being a previous-author term."""
    for s, vals, term in guards:
        atom, truth = mir.cond_atoms(term, vals)
        if atom[0] == "call" and atom[1].endswith("::eq") and len(atom[2]) == 2 and truth is not None:
            paths = [(body.cpath(a) if body is not None else field_path(a)) for a in atom[2]]
            if any(is_prev_author(p) for p in paths):
                return truth, paths
    return None, None


# a previous-author term, in canonical (type-rooted) form: the stored row's key carried by the row under validation
PREV_AUTHOR = re.compile(r"(\.old_node\.verifying_key|\.old_verifying_key|‹NodeDelete›\.node\.verifying_key|‹EdgeDelete›\.edge\.verifying_key|"
                         r"‹\((Edge|Node)DeletionEntry, Option<Vec<u8>>\)›\.1|‹\(\[u8; 16\], \(NodeDeletionEntry, Option<Vec<u8>>\)\)›\.1\.1|Edge::get_src_author\(\)|\.source_author|\.previous_author)$")


def is_prev_author(path):
    return bool(PREV_AUTHOR.search(path))


def room_ineq(guards, body=None):
    """a dominating `old room != new room` test: returns (paths) when an eq between two room ids is False"""
    for s, vals, term in guards:
        atom, truth = mir.cond_atoms(term, vals)
        if atom[0] == "call" and atom[1].endswith("::eq") and len(atom[2]) == 2 and truth is False:
            paths = [(body.cpath(a) if body is not None else field_path(a)) for a in atom[2]]
            if all("room_id" in p for p in paths):
                return paths
    return None


def can_sites(P, body):
    """analyse every decision call of a body"""
    out = []
    for bi, t in body.calls_to(DECISIONS):
        name = callee_name(t).rsplit("::", 1)[-1]
        args = body.call_args(bi, expand_vars=True)
        g = body.guards(bi, expand_vars=True)
        info = {"body": body, "block": bi, "kind": name, "args": args, "guards": g, "loc": body.loc(bi)}
        if name == "can":
            info["right"] = right_of(args[4])
            info["user"] = body.cpath(args[1])
            info["entity"] = body.cpath(args[2])
            info["date"] = body.cpath(args[3])
        else:
            info["right"] = None
            info["user"] = body.cpath(args[1])
            info["date"] = body.cpath(args[2])
        key, kterm = room_key_of(body, args[0])
        info["room_key"] = key
        eq, paths = author_eq(g, body=body)
        info["author_eq"] = eq
        info["author_eq_paths"] = paths
        info["room_ineq"] = room_ineq(g, body=body)
        out.append(info)
    return out


def _eq_at(body, block, user_term=None):
    """truth of the previous-author comparison that holds at `block` (through named booleans: `let same = a.eq(b); if same ..`),
    or None: recognised by one side being a previous-author term or the acting key of the decision"""
    user = mir.strip(user_term) if user_term is not None else None
    for atom, truth in body.guard_atoms(block, expand_vars=True):
        a0 = atom
        while a0[0] in ("ref", "deref"):
            a0 = a0[1]
        if a0[0] == "call" and a0[1].endswith("::eq") and len(a0[2]) == 2 and truth is not None:
            paths = [body.cpath(a) for a in a0[2]]
            if any(is_prev_author(p_) for p_ in paths):
                return truth
            if user is not None and any(mir.strip(x) == user for x in a0[2]):
                return truth
    return None


def decision_cases(body, site):
    """[(right kind, truth of the previous-author comparison or None, block)] for a `can` site, whatever the idiom:
    literal right at the call (the comparison guards the call), or a right held in a variable (each assignment of the
    variable is a case, guarded by the comparison at the assignment, or at the call when the assignment is unguarded)"""
    if site["kind"] != "can":
        return []
    raw = body.call_args(site["block"], expand_vars=False)[4]
    t = strip_refs(raw)
    while t[0] in ("deref", "ref"):
        t = strip_refs(t[1])
    user = site["args"][1]
    site_eq = _eq_at(body, site["block"], user)
    lit = right_of(site["args"][4])
    if t[0] != "var" or len(t) < 3:
        if lit in ("MutateSelf", "MutateAll"):
            return [(lit, site_eq, site["block"])]
        return [(lit or "?", site_eq, site["block"])]
    out = []
    for (bi, si, rv, lhs) in body.defs().get(t[2], ()):
        if si is None or len(lhs) != 1 or body.blocks[bi]["cl"]:
            continue
        r = right_of(body.def_term(bi, si, rv, 0))
        if r is None:
            continue
        e = _eq_at(body, bi, user)
        out.append((r, e if e is not None else site_eq, bi))
    return out or [(lit or "?", site_eq, site["block"])]


def canonical_kinds(body, sites):
    """{(right, 'different' | 'other')}: the all-rows right must be chosen exactly when the previous author exists and differs"""
    out = set()
    for s_ in sites:
        for r, e, bi in decision_cases(body, s_):
            out.add((r, "different" if e is False else "other"))
    return out


WANT_KINDS = {("MutateAll", "different"), ("MutateSelf", "other")}


def right_var_defs(body, varname):
    """for `let required_right = match .. {..}`: [(right, author_eq truth, block)] per assignment"""
    out = []
    # the variable is identified by its type (RightType), not by its spelling
    for l, n, lty, leaf in body.named_locals():
        if not re.search(r"RightType$", lty):
            continue
        for (bi, si, rv, lhs) in body.defs().get(l, ()):
            if si is None or len(lhs) != 1:
                continue
            term = body.def_term(bi, si, rv, 0)
            r = right_of(term)
            if r is None:
                continue
            g = body.guards(bi, expand_vars=True)
            eq, paths = author_eq(g, body=body)
            out.append((r, eq, bi, paths))
    return out


def str_match_arms(body, subject_suffix):
    """switches of the form eq(<subject>, "const") : {const: (switch block, true target)}"""
    out = {}
    for sb in sorted(body.live_blocks()):
        t = body.blocks[sb]["t"]
        if t["k"] != "switch":
            continue
        term = body.switch_term(sb, expand_vars=False)
        if term[0] == "call" and term[1].endswith("::eq") and len(term[2]) == 2:
            a, b2 = term[2]
            c = strip_refs(b2)
            if c[0] == "const" and isinstance(c[1], str) and field_path(a).endswith(subject_suffix):
                tt = None
                for tg, vals in switch_edges(body, sb):
                    atom, truth = mir.cond_atoms(term, vals)
                    if truth is True:
                        tt = tg
                out[c[1]] = (sb, tt)
    return out


# ---------------------------------------------------------------- sibling rule on the history lookups
HISTORY_FIELDS = {"admins": "date", "users": "date", "user_admins": "date", "rights": "valid_from"}
LOOKUP_FNS = ["database::room::Room::is_admin", "database::room::Room::is_user_valid_at", "database::room::Authorisation::is_user_valid_at",
              "database::room::Authorisation::can_admin_users", "database::room::Authorisation::get_right_at"]


def _resolve_capture(fam, fb, term, depth=0):
    """(body, origin term) of a value captured by a closure built in `fb`: when the value is itself a captured variable of
    `fb` (a closure inside a closure), the operand captured under that name where `fb` was built is followed"""
    o = fb.origin(mir.strip(term))
    if o[0] == "upvar" and depth < 4:
        for xb in fam:
            for bi in xb.live_blocks():
                for st in xb.blocks[bi]["s"]:
                    rv = st["rv"]
                    if rv["r"] == "aggr" and rv["kind"] in ("closure", "coroutine", "coroutine_closure") and rv.get("def") == fb.id:
                        for op in rv["ops"]:
                            ot = xb.origin(mir.strip(xb.operand_term(op)))
                            if ot[0] in ("var", "param", "upvar") and ot[1] == o[1]:
                                return _resolve_capture(fam, xb, ot, depth + 1)
    return fb, o


def history_lookup_rule(P, C, rule):
    """Every evaluation of a history vector at a date has one shape in this code base (6 sibling sites):
    `entries.iter().rev().find(|e| e.<date field> <= date)` followed by a read of the found entry's flag.
    A site that deviates (another combinator, another comparison, a flag tested inside the search) computes a
    different function of the history than its siblings: 'the latest entry at or before the date decides'.
    The shape is looked for in the function and its closures (`get(..).and_then(|h| h.iter().rev().find(..)).map_or(false, |e| e.enabled)`
    is the same lookup)."""
    n = 0
    STRAY = r"Iterator::(any|all|filter|filter_map|position|rposition|last|max_by_key|min_by_key|max_by|min_by|fold|find_map|take_while|skip_while|nth|reduce)$"
    for fn in LOOKUP_FNS:
        b = P.body(fn, required=False)
        if b is None:
            C.anchor_missing(rule, fn, "missing")
            continue
        C.saw(b)
        short = mir.short(b.id)
        fam = [P.bodies[x] for x in P.family(b.id) if x in P.bodies]
        flds = []
        for fb in fam:
            for gi, gt in fb.calls_to(r"HashMap::get$"):
                fld = field_path(fb.call_args(gi)[0]).split(".")[-1]
                if fld in HISTORY_FIELDS and fld not in flds:
                    flds.append((fld, fb, gi))
        finds = []
        stray = []
        for fb in fam:
            for bi, t in fb.live_calls():
                nm = callee_name(t)
                if re.search(r"::(find|rfind)$", nm):
                    finds.append((fb, bi, fb.call_args(bi, expand_vars=True)))
                elif re.search(STRAY, nm):
                    stray.append(nm.split("::")[-1])
        date_fields = {HISTORY_FIELDS[f_] for f_, _, _ in flds}
        shape_ok = len(finds) == len(flds) and not stray and len(date_fields) == 1
        det = "%d history field(s) %s, %d search(es), other combinators: %s" % (len(flds), [f_ for f_, _, _ in flds], len(finds), stray or "none")
        pred_bodies = set()
        if shape_ok:
            dfield = list(date_fields)[0]
            for fb, fbi, fargs in finds:
                recv = fargs[0]
                okf = mir.has_call(recv, r"Iterator::rev$|::rev$") is not None and mir.has_call(recv, r"slice::.*iter$|::iter$") is not None
                clos = strip_refs(fargs[1])
                cb = P.bodies.get(clos[2]) if clos[0] == "aggr" and clos[1] == "closure" else None
                cmp_ok = False
                if cb is not None and len(cb.live_blocks()) == 1:
                    pred_bodies.add(cb.id)
                    sts = [st for st in cb.blocks[0]["s"] if st["lhs"] == [0]]
                    if len(sts) == 1 and sts[0]["rv"]["r"] == "bin" and sts[0]["rv"]["op"] == "Le":
                        l = cb.operand_term(sts[0]["rv"]["a"])
                        r = cb.operand_term(sts[0]["rv"]["b"])
                        # `entry.<date field> <= <the date argument of the lookup function, captured>`
                        ru = mir.strip(r)
                        cmp_ok = (field_path(l).split(".")[-1] == dfield and mir.strip(l)[0] == "field"
                                  and ru[0] == "upvar" and cb.upvar_type(ru[1]) == "i64" and ru[1] in b.find_locals(ty=r"^i64$", param=True))
                        if not cmp_ok and field_path(l).split(".")[-1] == dfield and mir.strip(l)[0] == "field" and ru[0] == "upvar":
                            # the search lives in a helper analysed inlined: the captured date is the helper's parameter, bound to
                            # the date parameter of the lookup function at the call site (read from the closure's captured operands)
                            caps = [_resolve_capture(fam, fb, x) for x in (clos[4] if len(clos) > 4 else [])]
                            dates = b.find_locals(ty=r"^i64$", param=True)
                            cmp_ok = len(dates) == 1 and any(c_[0] in ("param", "var") and c_[1] == dates[0] and xb_.root_type(c_) == "i64" for xb_, c_ in caps)
                shape_ok = shape_ok and okf and cmp_ok
            det += "; reversed iteration with `entry.%s <= date` as the only test of every search: %s" % (dfield, shape_ok)
            # the decision is the found entry's flag: `enabled` is read in the function or one of its closures, outside the search predicates
            if any(f_ != "rights" for f_, _, _ in flds):
                flag = False
                for xb in fam:
                    if xb.id in pred_bodies:
                        continue
                    for bi2 in xb.live_blocks():
                        for si2, st2 in enumerate(xb.blocks[bi2]["s"]):
                            rv2 = st2["rv"]
                            pl = None
                            if rv2["r"] == "use":
                                pl = rv2["o"].get("c") or rv2["o"].get("m")
                            if pl and pl[-1:] == [".enabled"]:
                                flag = True
                        tt = xb.blocks[bi2]["t"]
                        if tt["k"] == "switch":
                            pl = tt["d"].get("c") or tt["d"].get("m")
                            if pl and pl[-1:] == [".enabled"]:
                                flag = True
                shape_ok = shape_ok and flag
                det += "; verdict = found entry's `enabled`: %s" % flag
        for fld, gb, gi in flds:
            n += 1
            C.ob(rule, "history-lookup:%s:%s" % (short, fld), shape_ok, gb.loc(gi), det)
    C.floor(rule, "history lookups", n, 6)
    # Authorisation::can reads the flags of the entry returned by get_right_at (entity first, then wildcard)
    b = P.body("database::room::Authorisation::can", required=False)
    if b is not None:
        C.saw(b)
        gr = b.calls_to(r"Authorisation::get_right_at$")
        wild = [bi for bi, t in gr if any(mir.strip_refs(a)[0] == "const" and (mir.strip_refs(a)[1] == "*" or str(mir.strip_refs(a)[3]).endswith("WILDCARD_ENTITY")) for a in b.call_args(bi))]
        fallback = False
        if len(gr) == 2 and len(wild) == 1:
            ent = [bi for bi, t in gr if bi != wild[0]][0]
            for s_, vals, term in b.guards(wild[0], expand_vars=True):
                dv = mir.discr_variants(term, vals)
                if dv and dv[1] == ["None"] and any(x[0] == "call" and x[3] == ent for x in mir.subterms(dv[0])):
                    fallback = True
        if not fallback:
            # `get_right_at(entity, date).or_else(|| get_right_at(WILDCARD, date))`: the closure runs only when the first lookup is None
            famb = [P.bodies[x] for x in P.family(b.id) if x in P.bodies]
            for ob, obi, ot in [(x, bi_, t_) for x in famb for bi_, t_ in x.calls_to(r"Option.*::or_else$")]:
                a_ = ob.call_args(obi, expand_vars=True)
                first = mir.has_call(a_[0], r"Authorisation::get_right_at$")
                clo = strip_refs(a_[1]) if len(a_) > 1 else ("unknown",)
                cb_ = P.bodies.get(clo[2]) if clo[0] == "aggr" and clo[1] == "closure" else None
                if first is None or cb_ is None:
                    continue
                first_is_wild = any(mir.strip_refs(x)[0] == "const" and (mir.strip_refs(x)[1] == "*" or str(mir.strip_refs(x)[3]).endswith("WILDCARD_ENTITY")) for x in first[2])
                inner = cb_.calls_to(r"Authorisation::get_right_at$")
                inner_wild = [bi_ for bi_, t_ in inner if any(mir.strip_refs(x)[0] == "const" and (mir.strip_refs(x)[1] == "*" or str(mir.strip_refs(x)[3]).endswith("WILDCARD_ENTITY")) for x in cb_.call_args(bi_))]
                if not first_is_wild and len(inner) == 1 and len(inner_wild) == 1:
                    fallback = True
                    gr = [("x", None), ("y", None)]
                    wild = [inner_wild[0]]
        C.ob(rule, "right-lookup:entity-then-wildcard", len(gr) == 2 and len(wild) == 1 and fallback, b.loc(), "the entity's own right entry decides; the wildcard entry is looked up only on the None edge of the entity's lookup")
    # Room::can combines membership at the date with the group's right at the date
    b = P.body("database::room::Room::can", required=False)
    if b is not None:
        C.saw(b)
        fam = [P.bodies[x] for x in P.family(b.id) if x in P.bodies]
        ia, iv, ac = [], [], []
        same_date = True
        dates = b.find_locals(ty=r"^i64$", param=True)
        for fb in fam:
            for lst, rx in ((ia, r"Room::is_admin$"), (iv, r"Authorisation::is_user_valid_at$"), (ac, r"Authorisation::can$")):
                for bi, t in fb.calls_to(rx):
                    lst.append((fb, bi))
                    a = fb.call_args(bi, expand_vars=True)
                    # the date argument is the function's date parameter (directly, or captured by a closure)
                    hit = False
                    for x in a:
                        u = mir.strip(x)
                        if (u[0] in ("param", "var") and field_path(x) in dates) or (u[0] == "upvar" and u[1] in dates):
                            hit = True
                    same_date = same_date and len(dates) == 1 and hit
        C.ob(rule, "room-can:membership-and-right-at-the-same-date", len(ia) == 1 and len(iv) == 1 and len(ac) == 1 and same_date, b.loc(),
             "Room::can = (is_admin(user,date) or group.is_user_valid_at(user,date)) and group.can(entity,date,right)")
