"""C01 — local writes are applied only with the room's rights at that time."""
import re
import mir
from mir import term_str, strip_refs, callee_name, field_path
from rules import rights

LOCAL_FNS = ["RoomAuthorisations::validate_deletion", "RoomAuthorisations::validate_entity_mutation",
             "RoomAuthorisations::validate_room_mutation", "RoomAuthorisations::validate_authorisation_mutation"]
SYS_ENTS = {"sys.Authorisation": "AUTHORISATION_ENT", "sys.EntityRight": "ENTITY_RIGHT_ENT", "sys.UserAuth": "USER_AUTH_ENT"}
# generic write channel (bypasses the authorisation actor by design): the audited callers
GENERIC_WRITERS = {
    "RoomAuthorisations::create_system_room": "room change-log row of the private system room (no user data)",
    "GraphDatabase::update_data_model": "serialised data model (configuration row, no room)",
    "system_entities::init_allowed_peers": "bootstrap rows of the private room, signed with the user's own key",
    "AllowedHardware::put": "device row of the private room",
    "GraphDatabaseService::add_peer_nodes": "peer rows (room-less, self-signed, verified by the caller: C02-R1)",
}


def author_eq_for(site):
    """truth of the dominating comparison between the acting key (the `user` argument) and another key"""
    user = mir.strip(site["args"][1])
    for s, vals, term in site["guards"]:
        atom, truth = mir.cond_atoms(term, vals)
        if atom[0] == "call" and atom[1].endswith("::eq") and len(atom[2]) == 2 and truth is not None:
            a, b = mir.strip(atom[2][0]), mir.strip(atom[2][1])
            if a == user:
                return truth, field_path(b)
            if b == user:
                return truth, field_path(a)
    return None, None


def right_kind_rule(C, rule, site, label):
    """R2: MutateAll exactly on the false edge of the author comparison (whatever the idiom: literal right under the
    comparison, or a right variable assigned under it)"""
    cases = rights.decision_cases(site["body"], site)
    if not cases or any(r not in ("MutateSelf", "MutateAll") for r, _, _ in cases):
        if site["right"] not in ("MutateSelf", "MutateAll", "var:right", "phi"):
            return None
    ok = bool(cases) and all((r == "MutateAll") == (e is False) for r, e, _ in cases)
    eq, other = author_eq_for(site)
    C.ob(rule, label, ok, site["loc"],
         "right requested: %s (other key: %s): all-rows right exactly when the row's previous author differs" % (
             ", ".join("%s when the author comparison is %s" % (r, {True: "equal", False: "different", None: "absent"}[e]) for r, e, _ in cases), other))
    return eq


def keyf(body, site, n):
    return "%s:%s%s" % (mir.short(body.id).split("::")[-1], site["kind"], n)


def run(P, C, tier):
    C.explanation = (
        "Static decision of the structural part of C01 on the MIR of the authorisation actor: every rights decision of the "
        "local write path is used and its refusing edge reaches only an error return (never the writer); the all-rows right "
        "is requested exactly on the edge where the stored row's author differs from the caller; the Room consulted is the one "
        "looked up with the room the row enters and, under `old room != new room`, also the one it leaves; system entities "
        "have Err-only arms; room sub-entries are append-only; the writer receives a write message only under the Ok edge of "
        "the validator; the in-memory rights and the generic write channel have exactly the audited writers. Not decided: "
        "that Room::can computes the documented function of the history.")
    C.rule("R1", "every Room::can / is_admin / can_admin_users result reaches a branch whose refusing edge leads only to Err/false/continue, with no accept effect")
    C.rule("R2", "MutateAll is requested exactly on the edge where the previous author differs from the caller; MutateSelf otherwise")
    C.rule("R3", "the Room of a decision comes from self.rooms.get(K): K is the entering room, and under `old room != new room` a second decision uses the leaving room")
    C.rule("R4", "system entities have Err-only arms in validate_entity_mutation / validate_deletion; room sub-entries are guarded append-only")
    C.rule("R5", "write messages are sent only under the Ok edge of the matching validator; add_room and the generic write channel have only the audited callers")
    bodies = {}
    for f in LOCAL_FNS:
        try:
            bodies[f] = P.body(f)
            C.saw(bodies[f])
        except mir.MissingAnchor as e:
            C.anchor_missing("R1", f, e)
    n_dec = 0
    counts = {}
    for f, b in bodies.items():
        sites = rights.can_sites(P, b)
        for s in sites:
            n = counts.get((b.id, s["kind"]), 0)
            counts[(b.id, s["kind"])] = n + 1
            label = keyf(b, s, "#%d" % n)
            # a decision is counted once per (right, author comparison) case it can be made with, so that merging two calls that
            # differ only in the right into one call with a right variable (or the reverse) does not change the count
            n_dec += max(1, len(rights.decision_cases(b, s))) if s["kind"] == "can" else 1
            # ---- R1
            if s["kind"] == "can_admin_users":
                ok, det = flag_chain(P, b, s)
            else:
                ok, det = rights.check_refusal(b, s["block"])
            C.ob("R1", label, ok, s["loc"], det)
            # ---- R2
            if s["kind"] == "can":
                right_kind_rule(C, "R2", s, label)
            # ---- R3
            if s["kind"] in ("can", "is_admin"):
                key = s["room_key"]
                if key is None:
                    # the mutated clone of the room in validate_room_mutation's final check
                    recv = b.cpath(mir.strip(s["args"][0]))
                    okk = f.endswith("validate_room_mutation") and recv == "‹Room›"
                    C.ob("R3", label, okk, s["loc"], "receiver %s is not a self.rooms.get(..) result" % recv)
                    continue
                ineq = s["room_ineq"]
                if ineq:
                    old = [p for p in ineq if "old" in p]
                    ok3 = bool(old) and key == old[0]
                    C.ob("R3", label, ok3, s["loc"],
                         "decision under `%s != %s` (row changes room) must consult the room it leaves: rooms.get(%s)" % (ineq[0], ineq[1], key))
                else:
                    ok3 = "old" not in key or f.endswith("validate_room_mutation")
                    C.ob("R3", label, ok3, s["loc"], "entering-room decision keyed by %s" % key)
    C.floor("R1", "decision cases on the local path", n_dec, 12)
    # ---- R6: the decision is taken at the time of the operation, on the documented history function
    C.rule("R6", "every local decision is evaluated at the operation's date (not a stored row's date); the history lookups all have the sibling shape `latest entry at or before the date decides`")
    OPDATE = re.compile(r"(\.node_to_mutate\.date|^‹NodeDelete›\.date|^‹EdgeDelete›\.date|date_utils::now\(\))$")
    cnt = {}
    for f, b in bodies.items():
        for s in rights.can_sites(P, b):
            n = cnt.get((b.id, s["kind"]), 0)
            cnt[(b.id, s["kind"])] = n + 1
            d = s.get("date") or ""
            dt = s["args"][3] if s["kind"] == "can" else s["args"][2]
            ok = bool(OPDATE.search(d)) or mir.has_call(dt, r"date_utils::now$") is not None
            C.ob("R6", "op-date:" + keyf(b, s, "#%d" % n), ok, s["loc"], "decision evaluated at `%s` (must be the date of this operation)" % d)
    rights.history_lookup_rule(P, C, "R6")
    # ---- R7: every row of the mutation tree is decided
    C.rule("R7", "every row of a nested mutation is validated: in validate_entity_mutation no path returns Ok without having entered the loop that validates the sub-entities (or the room-mutation validator, which walks its own sub-entities)")
    b = bodies.get("RoomAuthorisations::validate_entity_mutation")
    if b is not None:
        rec, heads = mir.recursion_loops(b)
        ok7 = False
        where = b.loc(rec[0]) if rec else b.loc()
        det7 = "no recursion into the sub-entities"
        if heads:
            room_val = [bi for bi, t in b.calls_to(r"RoomAuthorisations::validate_room_mutation$")]
            oks = set(mir.return_assignments(b)["Ok"])
            esc = b.reachable(0, avoid_blocks=set(heads) | set(room_val)) & oks
            ok7 = not esc
            det7 = "Ok exits reachable without visiting the sub-entities: %s" % (sorted(b.loc(x) for x in esc) or "none")
            if esc:
                det7 += " -- a row whose own content is unchanged (`node` is None: an id and no modified field, e.g. a parent named only to reach an already linked child) returns Ok before its sub-entities are validated: the children are written without any rights decision"
        C.ob("R7", "validate_entity_mutation:sub-entities-always-validated", ok7, where, det7)
    # ---- R8: a room mutation only reaches the groups of that room
    C.rule("R8", "a room's definition is changed only by its admins: the authorisation groups a room mutation may touch are the groups of THAT room, or brand-new rows. "
                 "In validate_authorisation_mutation a group is registered in the candidate room (Room::add_auth) only when the mutation creates its row "
                 "(no stored version: old_node is None); the id of an existing group of another room is refused (NotBelongsTo), otherwise an admin of room A "
                 "re-signs and extends a group of room B")
    try:
        va = P.body("RoomAuthorisations::validate_authorisation_mutation")
        C.saw(va)
        adds = [bi for bi, t in va.calls_to(r"room::Room::add_auth$")]
        C.floor("R8", "group registrations", len(adds), 1)
        for n_, bi in enumerate(adds):
            new_row = False
            for s_, vals, term in va.guards(bi, expand_vars=True):
                dv = mir.discr_variants(term, vals)
                atom, truth = mir.cond_atoms(term, vals)
                if dv and dv[1] == ["None"] and field_path(dv[0]).endswith(".old_node"):
                    new_row = True
                if atom[0] == "call" and re.search(r"Option.*::is_none$", atom[1]) and truth is True and atom[2] and field_path(atom[2][0]).endswith(".old_node"):
                    new_row = True
                if atom[0] == "call" and re.search(r"Option.*::is_some$", atom[1]) and truth is False and atom[2] and field_path(atom[2][0]).endswith(".old_node"):
                    new_row = True
            C.ob("R8", "group-registered-only-when-new#%d" % n_, new_row, va.loc(bi),
                 "Room::add_auth is reached only when the authorisation row has no stored version (old_node is None): %s" % new_row)
    except mir.MissingAnchor as e:
        C.anchor_missing("R8", "validate_authorisation_mutation", e)
    # both rooms: validate_entity_mutation has a decision under the room inequality
    b = bodies.get("RoomAuthorisations::validate_entity_mutation")
    if b is not None:
        sites = rights.can_sites(P, b)
        leaving = [s for s in sites if s["room_ineq"]]
        C.ob("R3", "validate_entity_mutation:leaving-room-checked", rights.canonical_kinds(b, leaving) == rights.WANT_KINDS, b.loc(),
             "a row that changes room is checked in the room it leaves, with the own-rows and the all-rows variant: %s (%d site%s)" % (sorted(rights.canonical_kinds(b, leaving)), len(leaving), "" if len(leaving) == 1 else "s"))
        entering = [s for s in sites if not s["room_ineq"]]
        C.ob("R2", "validate_entity_mutation:both-kinds", rights.canonical_kinds(b, entering) == rights.WANT_KINDS, b.loc(),
             "the entering-room decision has an own-rows and an all-rows variant: %s" % sorted(rights.canonical_kinds(b, entering)))
        # the mutated row keeps or explicitly changes its room: NodeToMutate.room_id = given room or the stored one
        # ---- R4 system entity arms
        arms = rights.str_match_arms(b, "entity")
        ra = mir.return_assignments(b)
        for const, name in SYS_ENTS.items():
            ent = arms.get(const)
            ok = False
            det = "no arm"
            if ent and ent[1] is not None:
                region = b.reachable(ent[1])
                calls = [callee_name(b.blocks[x]["t"]) for x in region if b.blocks[x]["t"]["k"] == "call"]
                ok = not (region & set(ra["Ok"])) and bool(region & set(ra["Err"])) and not any(re.search(rights.DECISIONS, c) for c in calls)
                det = "arm of %s returns Err on every path: %s" % (const, ok)
            C.ob("R4", "validate_entity_mutation:arm:" + name, ok, b.loc(ent[0]) if ent else b.loc(), det)
        room_arm = arms.get("sys.Room")
        ok = False
        if room_arm and room_arm[1] is not None:
            region = b.reachable(room_arm[1])
            vr = [x for x, t in b.calls_to(r"RoomAuthorisations::validate_room_mutation$")]
            ok = bool(vr) and all(b.dominates(room_arm[1], x) for x in vr)
            # nothing but validate_room_mutation decides in that arm
        C.ob("R4", "validate_entity_mutation:arm:ROOM_ENT", ok, b.loc(), "sys.Room is handled only by validate_room_mutation")
    d = bodies.get("RoomAuthorisations::validate_deletion")
    if d is not None:
        ra = mir.return_assignments(d)
        for subj, what in (("name", "node"), ("src_entity", "edge")):
            arms = rights.str_match_arms(d, subj)
            for const in ["sys.Room", "sys.Authorisation", "sys.EntityRight", "sys.UserAuth"]:
                ent = arms.get(const)
                ok = False
                if ent and ent[1] is not None:
                    region = d.reachable(ent[1], avoid_blocks=[x for x in [rights.enclosing_loop_header(d, ent[0])] if x is not None])
                    ok = not (region & set(ra["Ok"])) and bool(region & set(ra["Err"]))
                C.ob("R4", "validate_deletion:%s:arm:%s" % (what, const), ok, d.loc(ent[0]) if ent else d.loc(),
                     "deleting a %s of %s returns Err" % (what, const))
        # every deletion-log entry is built only after the decision accepted
        for bi, t in d.calls_to(r"DeletionEntry::build$"):
            g = d.guards(bi, expand_vars=True)
            dec = False
            for s, vals, term in g:
                atom, truth = mir.cond_atoms(term, vals)
                if mir.has_call(atom, rights.DECISIONS) and truth is True:
                    dec = True
                # `if !can {return Err}` : the build is on the false edge of Not(can) == true edge of can
            C.ob("R4", "validate_deletion:log-after-decision:" + mir.short(callee_name(t)), dec, d.loc(bi), "deletion log entry built only on the accepting edge")
    # ---- R4b append-only sub-entries
    n_b = 0
    for f in ("RoomAuthorisations::validate_room_mutation", "RoomAuthorisations::validate_authorisation_mutation"):
        b2 = bodies.get(f)
        if b2 is None:
            continue
        for bi, t in b2.calls_to(r"database::room::(Room::add_admin_user|Authorisation::add_right|Authorisation::add_user|Authorisation::add_user_admin)$"):
            g = b2.guards(bi, expand_vars=False)
            has = {"edge_deletions": False, "old_node": False, "room_id": False}
            for s, vals, term in g:
                atom, truth = mir.cond_atoms(term, vals)
                if atom[0] != "call":
                    continue
                p = b2.cpath(atom[2][0]) if atom[2] else ""
                if atom[1].endswith("Vec::is_empty") and p == "‹InsertEntity›.edge_deletions" and truth is True:
                    has["edge_deletions"] = True
                if atom[1].endswith("Option::is_some") and p.endswith("old_node") and truth is False:
                    has["old_node"] = True
                if atom[1].endswith("Option::is_some") and p.endswith("room_id") and truth is False:
                    has["room_id"] = True
            n_b += 1
            C.ob("R4", "append-only:%s:%s" % (f.split("::")[-1], callee_name(t).split("::")[-1]), all(has.values()), b2.loc(bi),
                 "history builder reached only for a new entry (no previous version), without reference removals and without a room id: %s" % has)
    C.floor("R4", "history builder calls in the room mutation validators", n_b, 4)
    # ---- R5
    try:
        pm = P.body("AuthorisationService::process_message::{closure#0}")
        C.saw(pm)
        need = {"Deletion": [r"validate_deletion$"], "Mutation": [r"validate_mutation$"], "MutationStream": [r"validate_mutation$"],
                "RoomMutation": [r"validate_mutation$"], "RoomMutationStream": [r"validate_mutation$"], "RoomNode": [r"prepare_room_node$"]}
        n_w = 0
        for bi, t in pm.calls_to(r"BufferedDatabaseWriter::send$"):
            payload = pm.call_args(bi, expand_vars=True)[1]
            var = None
            for s in mir.subterms(payload):
                if s[0] == "aggr" and s[2].endswith("WriteMessage"):
                    var = s[3]
                    break
            if var not in need:
                continue
            n_w += 1
            g = pm.guards(bi, expand_vars=True)
            ok = False
            for s, vals, term in g:
                dv = mir.discr_variants(term, vals)
                if dv and dv[1] == ["Ok"] and any(mir.has_call(dv[0], r) for r in need[var]):
                    ok = True
            C.ob("R5", "writer<-" + var, ok, pm.loc(bi), "WriteMessage::%s is sent only under Ok(%s)" % (var, need[var][0].strip("$")))
        C.floor("R5", "guarded write messages", n_w, 6)
        # refusal arm sends only the error
        for bi, t in pm.calls_to(r"RoomAuthorisations::add_room$"):
            g = pm.guards(bi, expand_vars=True)
            oks = [dv for dv in (mir.discr_variants(term, vals) for s, vals, term in g) if dv and dv[1] == ["Ok"]]
            wrote = any(field_path(dv[0]).split(".")[-1] in ("result", "res", "0") or term_str(dv[0]).startswith("msg") for dv in oks)
            valid = any(mir.has_call(dv[0], r"(validate_mutation|RoomNode::parse)$") for dv in oks)
            # `write_result.and_then(|_| room.parse())`: one Ok edge stands for both (the closure runs only when the write succeeded)
            for dv in oks:
                c_ = mir.has_call(dv[0], r"Result.*::and_then$")
                if c_ is not None and len(c_[2]) == 2:
                    clo = strip_refs(c_[2][1])
                    cb_ = P.bodies.get(clo[2]) if clo[0] == "aggr" and clo[1] == "closure" else None
                    if cb_ is not None and cb_.calls_to(r"(validate_mutation|RoomNode::parse)$"):
                        valid = True
                        if mir.strip(c_[2][0])[0] in ("var", "param", "field", "upvar", "downcast"):
                            wrote = True
            C.ob("R5", "add_room:%d" % pm.line_of(bi) if False else "add_room:" + arm_of(pm, bi), wrote and valid, pm.loc(bi),
                 "in-memory rights replaced only after the write succeeded (%s) and the definition validated again (%s)" % (wrote, valid))
    except mir.MissingAnchor as e:
        C.anchor_missing("R5", "process_message", e)
    callers = {mir.short(P.owner_fn(b.id)) for b, bi, t in P.call_sites(r"RoomAuthorisations::add_room$")}
    allowed = {"AuthorisationService::process_message", "RoomAuthorisations::create_system_room", "RoomAuthorisations::load_json"}
    for c in sorted(callers):
        C.ob("R5", "add_room<-" + c, c in allowed, "", "audited caller of add_room", nontrivial=False)
    ins = []
    for body in P.bodies.values():
        for bi, t in body.calls_to(r"HashMap::(insert|remove|clear|retain|get_mut|entry)$"):
            a = body.call_args(bi)
            if field_path(a[0]).endswith(".rooms") and "RoomAuthorisations" in (body.raw.get("impl_of") or body.id):
                ins.append((body, bi))
    for body, bi in ins:
        C.ob("R5", "rooms-mutated-in:" + mir.short(body.id), body.id.endswith("RoomAuthorisations::add_room"), body.loc(bi), "self.rooms is mutated only inside add_room")
    gw = P.call_sites(r"BufferedDatabaseWriter::write$")
    for cb, bi, t in gw:
        owner = P.owner_fn(cb.id)
        ok = any(owner.endswith(k) for k in GENERIC_WRITERS)
        why = [v for k, v in GENERIC_WRITERS.items() if owner.endswith(k)]
        C.ob("R5", "generic-write<-" + mir.short(owner), ok, cb.loc(bi), why[0] if why else "unaudited caller of the unauthorised write channel", nontrivial=False)
    gs = [x for x in P.call_sites(r"BufferedDatabaseWriter::send$") if not P.owner_fn(x[0].id).endswith("process_message")]
    for cb, bi, t in gs:
        owner = P.owner_fn(cb.id)
        payload = cb.call_args(bi, expand_vars=True)[1]
        var = [s[3] for s in mir.subterms(payload) if s[0] == "aggr" and s[2].endswith("WriteMessage")]
        ok = (var == ["ComputeDailyLog"] and owner.endswith("GraphDatabaseService::start")) or (var == ["Write"] and owner.endswith("GraphDatabaseService::add_peer_nodes"))
        C.ob("R5", "writer-send<-%s:%s" % (mir.short(owner), ",".join(var)), ok, cb.loc(bi), "write messages outside the authorisation actor: recomputation request or audited peer rows only")
    C.floor("R5", "generic write channel callers", len(gw), 5)


def arm_of(body, bi):
    for s, vals, term in body.guards(bi):
        dv = mir.discr_variants(term, vals)
        if dv and term[2].endswith("AuthorisationMessage") and len(dv[1]) == 1:
            return dv[1][0]
    return "?"


def flag_chain(P, b, s):
    """can_admin_users: its refusing edge must raise the `room admin needed` flag, the function returns that flag,
    and the caller turns the flag into a room-admin requirement whose refusal is an Err.  The flag is identified as the
    bool variable returned in Ok(..) (callee) and as the bool variable raised on the true edge of the callee's result (caller)."""
    sws = rights.decision_switches(b, s["block"])
    if not sws:
        return False, "result unused"
    # the flag of the callee: the bool local wrapped in the Ok(..) return value
    flags = set()
    for bi in b.live_blocks():
        for st in b.blocks[bi]["s"]:
            if st["lhs"] == [0] and st["rv"]["r"] == "aggr" and st["rv"].get("variant") == "Ok":
                t = b.def_term(bi, 0, st["rv"], 0)
                for x in mir.subterms(t):
                    if x[0] == "var" and len(x) > 2 and b.locals[x[2]] == "bool":
                        flags.add(x[2])
    ret = len(flags) == 1
    fl = next(iter(flags)) if ret else None
    ok = ret
    det = []
    for sb, tt, ft in sws:
        region = b.reachable(ft)
        sets = False
        for x in region:
            for st in b.blocks[x]["s"]:
                if st["lhs"] == [fl] and st["rv"]["r"] == "use" and st["rv"]["o"].get("k", {}).get("v") is True:
                    sets = True
        # on the refusing edge the flag is set before any return
        first = b.blocks[ft]
        direct = any(st["lhs"] == [fl] for st in first["s"])
        ok = ok and sets and direct
        det.append("refusing edge bb%d->bb%d raises the returned flag at once: %s" % (sb, ft, direct))
    det.append("returns Ok(flag): %s" % ret)
    # caller: validate_room_mutation
    try:
        c = P.body("RoomAuthorisations::validate_room_mutation")
    except mir.MissingAnchor:
        return False, "caller missing"
    cflags = set()
    for sb in c.live_blocks():
        tt_ = c.blocks[sb]["t"]
        if tt_["k"] == "switch":
            term = c.switch_term(sb, expand_vars=True)
            if mir.has_call(term, r"validate_authorisation_mutation$") and term[0] != "discr":
                for tg, vals in rights.switch_edges(c, sb):
                    atom, truth = mir.cond_atoms(term, vals)
                    if truth is True:
                        for st in c.blocks[tg]["s"]:
                            if len(st["lhs"]) == 1 and c.locals[st["lhs"][0]] == "bool" and st["lhs"][0] in c.names and st["rv"]["r"] == "use" and st["rv"]["o"].get("k", {}).get("v") is True:
                                cflags.add(st["lhs"][0])
    chain = len(cflags) == 1
    det.append("caller raises its own flag from the returned one: %s" % chain)
    final = False
    for fs in rights.can_sites(P, c):
        if fs["kind"] == "is_admin":
            for sg, vals, term in c.guards(fs["block"]):
                atom, truth = mir.cond_atoms(term, vals)
                if atom[0] == "var" and len(atom) > 2 and atom[2] in cflags and truth is True:
                    okf, _ = rights.check_refusal(c, fs["block"])
                    final = final or okf
    det.append("flag && !is_admin -> Err in the caller: %s" % final)
    return ok and ret and chain and final, "; ".join(det)
