"""C07 — a room definition accepted from a peer only adds entitled entries."""
import re
import mir
from mir import term_str, strip_refs, callee_name, field_path, full_path
from rules import rights

NODE_LISTS_ROOM = ["admin_nodes", "auth_nodes"]
NODE_LISTS_AUTH = ["user_admin_nodes", "user_nodes", "right_nodes"]
EDGE_LISTS_ROOM = ["admin_edges", "auth_edges"]
EDGE_LISTS_AUTH = ["user_admin_edges", "user_edges", "right_edges"]
# who may add an entry to which list (the property's table)
ENTITLED = {
    "admin_nodes": {"is_admin"}, "auth_nodes": {"is_admin"}, "right_nodes": {"is_admin"},
    "user_admin_nodes": {"is_admin"}, "user_nodes": {"is_admin", "can_admin_users"},
}


def roles(b):
    """the parameters of the merge / import functions by role, from their types: `&mut RoomNode|AuthorisationNode` is the
    candidate ("new"), `&RoomNode|&AuthorisationNode` next to a candidate is the stored definition ("old"), alone it is
    the candidate; `&Room` is the rights table ("room")"""
    if getattr(b, "_c07_roles", None) is not None:
        return b._c07_roles
    r = {}
    ps = [(n, lty) for l, n, lty, leaf in b.named_locals() if leaf[0] == "param"]
    has_mut = any(re.search(r"^&mut .*(RoomNode|AuthorisationNode)$", lty) for n, lty in ps)
    for n, lty in ps:
        if re.search(r"^&mut .*(RoomNode|AuthorisationNode)$", lty):
            r[n] = "new"
        elif re.search(r"^&.*(RoomNode|AuthorisationNode)$", lty):
            r[n] = "old" if has_mut else "new"
        elif re.search(r"^&.*room::Room$", lty):
            r[n] = "room"
    b._c07_roles = r
    return r


def rp(b, t, _depth=0):
    """full_path with the root parameter replaced by its role"""
    p = full_path(b, t)
    head, _, rest = p.partition(".")
    role = roles(b).get(head)
    if role:
        return role + ("." + rest if rest else "")
    # a local alias (`let author = &admin.node.verifying_key`) or a local collection of references to the entries of a
    # role parameter's list (`let pending: Vec<&UserNode> = room_node.admin_nodes.iter().collect()`)
    if _depth < 4:
        for l, n, lty, leaf in b.named_locals():
            if n == head and leaf[0] == "var":
                ds = b.var_defs(leaf)
                if len(ds) != 1 or mir._is_loop_item(ds[0]):
                    continue
                d0 = strip_refs(ds[0])
                while d0[0] in ("deref", "ref") or (d0[0] == "call" and d0[2] and re.search(r"::(deref|deref_mut|as_slice|as_mut_slice|as_ref|as_mut|borrow|borrow_mut)$", d0[1])):
                    # `&Vec<T>` handed to a `&[T]` parameter goes through Deref::deref: the same list
                    d0 = strip_refs(d0[2][0] if d0[0] == "call" else d0[1])
                c = mir.has_call(d0, r"Iterator::collect$")
                if c is not None and c[2]:
                    inner = c[2][0]
                    while True:
                        u = strip_refs(inner)
                        if u[0] == "call" and u[2] and (mir.ITER_ADAPTOR.search(u[1]) or mir.TRANSPARENT.search(u[1]) or u[1].endswith("::iter") or u[1].endswith("deref")):
                            inner = u[2][0]
                        else:
                            break
                    base = rp(b, inner, _depth + 1)
                    if base.split(".")[0] in ("new", "old", "room"):
                        return base + ("." + rest if rest else "")
                elif d0[0] in ("field", "var", "param") and mir.has_call(d0, r"::find$") is None:
                    base = rp(b, d0, _depth + 1)
                    if base.split(".")[0] in ("new", "old", "room"):
                        return base + ("." + rest if rest else "")
    # a variable bound to the element found in a list of a role parameter: `<role>.<list>.[find]`
    for l, n, lty, leaf in b.named_locals():
        if n == head and leaf[0] == "var":
            frontier = list(b.var_defs(leaf))
            for _ in range(3):   # `let x = list.find(..); match x { Some(y) => ..` : follow the binding chain
                nxt = []
                for d in frontier:
                    if mir.has_call(d, r"::find$") is None:
                        for x in mir.subterms(d):
                            if x[0] == "var" and len(x) > 2:
                                nxt += b.var_defs(x)
                frontier += nxt
            for d in frontier:
                c = mir.has_call(d, r"::find$")
                if c is not None and c[2]:
                    recv = c[2][0]
                    while True:
                        u = recv
                        while u[0] in ("ref", "deref"):
                            u = u[1]
                        if u[0] == "call" and u[2] and (mir.ITER_ADAPTOR.search(u[1]) or mir.TRANSPARENT.search(u[1]) or u[1].endswith("deref_mut")):
                            recv = u[2][0]
                        else:
                            break
                    base = rp(b, recv)
                    if base.split(".")[0] in ("new", "old", "room"):
                        base = re.sub(r"\.\[\]$", "", base)
                        return base + ".[find]" + ("." + rest if rest else "")
    return p


LOOKUP = r"::(find|position|get|find_map|binary_search\w*)$"


def absent_guard(term, vals):
    """the guard says `the looked-up entry does not exist`, in any of the forms maintainers write:
    `x.is_none()`, `!x.is_some()` (guard clause), `match x { None => .. }` / let-else, `!list.iter().any(..)`, `!list.contains(..)`"""
    atom, truth = mir.cond_atoms(term, vals)
    dv = mir.discr_variants(term, vals)
    if atom[0] == "call" and atom[1].endswith("Option::is_none") and truth is True:
        return True
    if atom[0] == "call" and atom[1].endswith("Option::is_some") and truth is False:
        return True
    if dv and dv[1] == ["None"] and mir.has_call(dv[0], LOOKUP) is not None:
        return True
    if atom[0] == "call" and re.search(r"::(any|contains|contains_key)$", atom[1]) and truth is False:
        return True
    return False


def decisions(P, b):
    out = []
    for bi, t in b.calls_to(rights.DECISIONS):
        a = b.call_args(bi)
        out.append({"block": bi, "pred": callee_name(t).split("::")[-1], "recv": rp(b, a[0]),
                    "user": rp(b, a[1]), "date": rp(b, a[2]), "loc": b.loc(bi)})
    return out


def list_of(path):
    """'x.auth_nodes.[].user_nodes.[].node.verifying_key' -> 'user_nodes'"""
    m = re.findall(r"([a-z_]+)\.\[\]", path)
    return m[-1] if m else None


def entitlement(C, P, fn, lists, rule="R2"):
    b = P.body(fn)
    C.saw(b)
    ds = decisions(P, b)
    short = fn.split("::")[-1]
    by_list = {}
    for d in ds:
        l = list_of(d["user"])
        if l is None and d["user"].startswith("new.node") and short == "prepare_auth_with_history":
            l = "auth_nodes"
        by_list.setdefault(l, []).append(d)
    for l in lists:
        got = by_list.get(l, [])
        preds = {d["pred"] for d in got}
        ok = bool(got) and preds <= ENTITLED[l]
        for d in got:
            okd = d["user"].endswith(".node.verifying_key") and d["date"].endswith(".node.mdate") and d["user"][:-len("verifying_key")] == d["date"][:-len("mdate")]
            okr, det = rights.check_refusal(b, d["block"])
            if d["pred"] == "can_admin_users" and not okr:
                # accepted idiom: refusal of the user-admin test falls through to the is_admin test of the same entry
                sw = rights.decision_switches(b, d["block"])
                okr = bool(sw) and all(any(o["block"] in b.reachable(ft) and o["pred"] == "is_admin" and o["user"] == d["user"] for o in got) for _, _, ft in sw if ft is not None)
                det += " / falls through to is_admin of the same entry: %s" % okr
            ok = ok and okd and okr
        C.ob(rule, "%s:%s" % (short, l), ok, got[0]["loc"] if got else b.loc(),
             "new entries of %s are checked with %s for the entry's own author and date and a refusal returns Err (%d decision%s)" % (
                 l, sorted(preds) or "NOTHING", len(got), "" if len(got) == 1 else "s"))
    return ds


def run(P, C, tier):
    C.explanation = (
        "Static decision of the merge and entitlement structure of room definitions received from peers. The entry lists are "
        "taken from the struct types (RoomNode, AuthorisationNode); for each list the merge must preserve old entries "
        "(push-back or equality-or-Err), and every function that accepts new entries must evaluate the entitlement predicate "
        "of the property's table for the entry's own author and date with a refusing Err edge. Attaching references are "
        "checked for source, label and author binding. Not decided: the values of the resulting access decisions.")
    C.rule("R1", "merge is monotone: every old entry/reference is kept (pushed back when absent; an altered entry row is an Err; an older group row is replaced by the stored one)")
    C.rule("R2", "every list of new entries has its entitlement predicate (admins, groups, rights, user admins: is_admin; users: can_admin_users or is_admin) on the entry's own author/date, refusal = Err")
    C.rule("R3", "attaching references are bound: src == owner id, label == the list's field, author entitled at the reference's date")
    C.rule("R4", "the definition written and loaded into the rights table is the one that was validated")
    try:
        rh = P.body("room_node::prepare_room_with_history")
        ah = P.body("room_node::prepare_auth_with_history")
        C.saw(rh), C.saw(ah)
    except mir.MissingAnchor as e:
        C.anchor_missing("R1", "prepare_*_with_history", e)
        return
    # lists from the type facts
    rn = P.adts.get("database::room_node::RoomNode")
    an = P.adts.get("database::room_node::AuthorisationNode")
    room_fields = [f["name"] for f in rn["variants"][0]["fields"] if f["ty"].startswith("std::vec::Vec<")] if rn else []
    auth_fields = [f["name"] for f in an["variants"][0]["fields"] if f["ty"].startswith("std::vec::Vec<")] if an else []
    C.ob("R1", "lists:RoomNode", sorted(room_fields) == sorted(NODE_LISTS_ROOM + EDGE_LISTS_ROOM), "", "entry lists of RoomNode: %s (a new list must be added to the rule tables)" % room_fields, nontrivial=False)
    C.ob("R1", "lists:AuthorisationNode", sorted(auth_fields) == sorted(NODE_LISTS_AUTH + EDGE_LISTS_AUTH), "", "entry lists of AuthorisationNode: %s" % auth_fields, nontrivial=False)
    # ---- R1
    n = 0
    for b, cand, old, node_lists, edge_lists in ((rh, "new", "old", NODE_LISTS_ROOM, EDGE_LISTS_ROOM), (ah, "new", "old", NODE_LISTS_AUTH, EDGE_LISTS_AUTH)):
        pushes = {}
        for bi, t in b.calls_to(r"Vec::push$"):
            a = b.call_args(bi)
            pushes[(rp(b, a[0]), rp(b, a[1]))] = bi
        eqs = {}
        for bi, t in b.calls_to(r"database::node::Node::eq$|Node as std::cmp::PartialEq>::eq$"):
            a = b.call_args(bi)
            eqs[rp(b, a[1])] = bi
        for l in node_lists + edge_lists:
            key = ("%s.%s" % (cand, l), "%s.%s.[]" % (old, l))
            bi = pushes.get(key)
            ok = bi is not None
            det = "old entries of %s absent from the candidate are pushed back" % l
            if ok:
                g = b.guards(bi, expand_vars=True)
                absent = False
                for s, vals, term in g:
                    if absent_guard(term, vals):
                        absent = True
                ok = absent
                det += "; under `find(..) is None`: %s" % absent
            n += 1
            C.ob("R1", "%s:keep:%s" % (mir.short(b.id).split("::")[-1], l), ok, b.loc(bi) if bi is not None else b.loc(), det)
        for l in node_lists:
            if l == "auth_nodes":
                continue
            bi = eqs.get("%s.%s.[].node" % (old, l))
            ok = bi is not None
            det = "no equality test of the entry row against the stored one"
            if ok:
                okr, det = rights.check_refusal(b, bi)
                ok = okr
            C.ob("R1", "%s:immutable:%s" % (mir.short(b.id).split("::")[-1], l), ok, b.loc(bi) if bi is not None else b.loc(), "an entry row that differs from the stored one is an Err: " + det)
    C.floor("R1", "preservation loops", n, 10)
    # date rule of the group row: an older-or-equal candidate is replaced by the stored row
    ok = False
    for bi in rh.live_blocks():
        for si, st in enumerate(rh.blocks[bi]["s"]):
            if st["lhs"][-1:] == [".node"] and len(st["lhs"]) > 1:
                t = rh.def_term(bi, si, st["rv"], 0)
                if rp(rh, t) == "old.auth_nodes.[].node":
                    g = rh.guards(bi, expand_vars=True)
                    for s, vals, term in g:
                        atom, truth = mir.cond_atoms(term, vals)
                        if atom[0] == "bin" and atom[1] == "Lt" and truth is False and "mdate" in term_str(atom):
                            ok = True
    C.ob("R1", "prepare_room_with_history:group-row-date-rule", ok, rh.loc(), "a candidate group row that is not newer than the stored one is replaced by the stored row")
    # the lists of a group known to both sides are ALWAYS merged: prepare_auth_with_history both validates the new entries
    # and pushes back the stored entries the candidate lacks, so an iteration that skips it (e.g. "the candidate's group is
    # not newer") lets the candidate's lists replace the stored ones: entries vanish, unvalidated entries pass
    pa = [bi for bi, t in rh.calls_to(r"room_node::prepare_auth_with_history$")]
    C.floor("R1", "group merge call sites", len(pa), 2)
    if pa:
        hdr = rights.enclosing_loop_header(rh, pa[0])
        some_targets = []
        for sb in rh.live_blocks():
            t = rh.blocks[sb]["t"]
            if t["k"] != "switch":
                continue
            term = rh.switch_term(sb, expand_vars=True)
            if term[0] != "discr" or mir.has_call(term[1], r"::find$") is None or not rh.dominates(sb, pa[0]):
                continue
            if "auth_nodes" not in term_str(term):
                continue
            for tg, vals in rights.switch_edges(rh, sb):
                dv = mir.discr_variants(term, vals)
                if dv and dv[1] == ["Some"]:
                    some_targets.append(tg)
        ra = mir.return_assignments(rh)
        ok = hdr is not None and bool(some_targets)
        if ok:
            for st_ in some_targets:
                r = rh.reachable(st_, avoid_blocks=set(pa))
                if hdr in r or (r & set(ra["Ok"])):
                    ok = False
        C.ob("R1", "prepare_room_with_history:group-lists-always-merged", ok, rh.loc(pa[0]),
             "for a group present in both definitions every path to the next iteration or to Ok goes through prepare_auth_with_history: %s" % ok)
    # ---- R2
    entitlement(C, P, "room_node::prepare_room_with_history", NODE_LISTS_ROOM)
    entitlement(C, P, "room_node::prepare_auth_with_history", NODE_LISTS_AUTH)
    entitlement(C, P, "room_node::prepare_new_room", NODE_LISTS_ROOM + NODE_LISTS_AUTH)
    entitlement(C, P, "room_node::prepare_new_auth", NODE_LISTS_AUTH)
    # new entries only: the decision is under `absent from the old list`
    for b in (rh, ah):
        for d in decisions(P, b):
            if (d["user"].startswith("new.node") and b is ah) or (d["user"].startswith("new.auth_nodes.[find].node") and b is rh):
                continue   # the decision on the updated group row itself (not a new entry of a list)
            g = b.guards(d["block"], expand_vars=True)
            absent = any(absent_guard(term, vals) for s_, vals, term in g)
            C.ob("R2", "%s:only-new:%s:%s" % (mir.short(b.id).split("::")[-1], list_of(d["user"]), d["pred"]), absent, d["loc"], "the entitlement test is applied to entries absent from the stored definition")
    # prepare_room_node dispatches: known room -> merge; unknown room -> prepare_new_room
    try:
        pr = P.body("RoomAuthorisations::prepare_room_node")
        C.saw(pr)
        cc = pr.calls_to(r"RoomNode::check_consistency$")
        m1 = pr.calls_to(r"room_node::prepare_room_with_history$")
        m2 = pr.calls_to(r"room_node::prepare_new_room$")
        ok = len(cc) == 1 and len(m1) == 1 and len(m2) == 1 and pr.dominates(cc[0][0], m1[0][0]) and pr.dominates(cc[0][0], m2[0][0])
        for bi, t in cc + m1 + m2:
            re_ = mir.result_edges(pr, bi)
            ok = ok and re_ is not None and re_["via"] == "?"
        C.ob("R2", "prepare_room_node:dispatch", ok, pr.loc(), "check_consistency? dominates both prepare_room_with_history? and prepare_new_room?")
        # a known room without the stored definition is an Err
    except mir.MissingAnchor as e:
        C.anchor_missing("R2", "prepare_room_node", e)
    # ---- R3 references
    for fn, lists, owner in (("room_node::RoomNode::check_consistency", EDGE_LISTS_ROOM, "self.node.id"), ("room_node::AuthorisationNode::check_consistency", EDGE_LISTS_AUTH, "self.node.id")):
        try:
            b = P.body(fn)
            C.saw(b)
            srcs = {}
            labels = {}
            for bi, t in b.calls_to(r"::eq$"):
                a = b.call_args(bi)
                p0, p1 = full_path(b, a[0]), full_path(b, a[1])
                for l in lists:
                    if p0 == "self.%s.[].src" % l and p1 == owner:
                        okr, det = rights.check_refusal(b, bi)
                        srcs[l] = (bi, okr)
                    if p0 == "self.%s.[].label" % l or p1 == "self.%s.[].label" % l:
                        labels[l] = bi
            for l in lists:
                s = srcs.get(l)
                C.ob("R3", "src:%s" % l, s is not None and s[1], b.loc(s[0]) if s else b.loc(), "every reference of %s starts at the owner row (src == node.id), else Err" % l)
        except mir.MissingAnchor as e:
            C.anchor_missing("R3", fn, e)
    # label / author binding of the attaching references anywhere on the acceptance path
    accept_fns = ["room_node::RoomNode::check_consistency", "room_node::AuthorisationNode::check_consistency", "room_node::prepare_room_with_history",
                  "room_node::prepare_auth_with_history", "room_node::prepare_new_room", "room_node::prepare_new_auth", "SignatureVerificationService::room_check"]
    label_tests = []
    author_tests = []
    for fn in accept_fns:
        b = P.body(fn, required=False)
        if b is None:
            continue
        for bi, t in b.calls_to(r"::eq$"):
            a = b.call_args(bi)
            ps = [full_path(b, x) for x in a]
            if any(re.search(r"_edges\.\[\]\.label$", p) for p in ps):
                label_tests.append(b.loc(bi))
        for bi, t in b.calls_to(rights.DECISIONS):
            a = b.call_args(bi)
            if re.search(r"_edges\.\[\]\.verifying_key$", full_path(b, a[1])):
                author_tests.append(b.loc(bi))
    C.ob("R3", "edge-label", len(label_tests) >= 5, "src/database/room_node.rs",
         "each of the 5 reference lists tests label == its field constant (found %d tests): without it a validly signed entry can be attached under another list" % len(label_tests))
    C.ob("R3", "edge-author", len(author_tests) >= 5, "src/database/room_node.rs",
         "each of the 5 reference lists tests that the reference's author is entitled at its date (found %d tests): without it anybody can attach an existing entry row" % len(author_tests))
    # ---- R4
    try:
        pm = P.body("AuthorisationService::process_message::{closure#0}")
        C.saw(pm)
        ok = False
        for bi, t in pm.calls_to(r"RoomAuthorisations::prepare_room_node$"):
            validated = field_path(pm.call_args(bi, expand_vars=True)[2])
            for wb, wt in pm.calls_to(r"BufferedDatabaseWriter::send$"):
                payload = pm.call_args(wb, expand_vars=True)[1]
                for s in mir.subterms(payload):
                    if s[0] == "aggr" and s[2].endswith("RoomNodeWriteQuery"):
                        written = field_path(s[4][s[5].index("room")])
                        ok = written == validated
                        C.ob("R4", "written-is-validated", ok, pm.loc(wb), "RoomNodeWriteQuery.room = %s; prepare_room_node validated %s" % (written, validated))
        for bi, t in pm.calls_to(r"RoomAuthorisations::add_room$"):
            from rules.c01 import arm_of
            if arm_of(pm, bi) == "RoomNodeWrite":
                src = pm.call_args(bi, expand_vars=True)[1]
                p = mir.has_call(src, r"RoomNode::parse$")
                okp = p is not None and field_path(p[2][0]).endswith(".room")
                if not okp:
                    # `res.and_then(|_| query.room.parse())`: the parse runs in the closure
                    c_ = mir.has_call(src, r"Result.*::and_then$")
                    if c_ is not None and len(c_[2]) == 2:
                        clo = strip_refs(c_[2][1])
                        cb_ = P.bodies.get(clo[2]) if clo[0] == "aggr" and clo[1] == "closure" else None
                        if cb_ is not None:
                            for pb_, pt_ in cb_.calls_to(r"RoomNode::parse$"):
                                recv_ = cb_.call_args(pb_, expand_vars=True)[0]
                                caps = [field_path(strip_refs(x)) for x in (clo[4] if len(clo) > 4 else [])]
                                if field_path(recv_).endswith(".room") or (mir.strip(recv_)[0] == "upvar" and any(x.endswith(".room") for x in caps)):
                                    okp = True
                C.ob("R4", "loaded-is-written", okp, pm.loc(bi), "add_room receives parse() of the written RoomNode")
    except mir.MissingAnchor as e:
        C.anchor_missing("R4", "process_message", e)
    r5_new_room_history(P, C)


def r5_new_room_history(P, C):
    C.rule("R5", "a room not seen before is accepted only if its whole history is consistent: an administrator entry is entitled by the administrator history that "
                 "PRECEDES it -- the entitlement test is made on a history built entry by entry, never on the full received definition (which already contains the "
                 "entry under test, so that an entry a key writes for itself would authorise itself); the only self-authorising entry is the first one (empty history)")
    try:
        b = P.body("room_node::prepare_new_room")
    except mir.MissingAnchor as e:
        C.anchor_missing("R5", "prepare_new_room", e)
        return
    ds = [d for d in decisions(P, b) if list_of(d["user"]) == "admin_nodes"]
    C.floor("R5", "administrator entitlement decisions of a new room", len(ds), 1)
    for n, d in enumerate(ds):
        a = b.call_args(d["block"])
        recv = strip_refs(a[0])
        while recv[0] in ("deref", "ref"):
            recv = strip_refs(recv[1])
        defs = b.var_defs(recv) if recv[0] == "var" else []
        from_parse = any(mir.has_call(x, r"RoomNode::parse$") is not None for x in defs) or recv[0] != "var"
        literal = bool(defs) and all(strip_refs(x)[0] == "aggr" and (strip_refs(x)[2] or "").endswith("room::Room") for x in defs)
        C.ob("R5", "admin-history-precedes-entry#%d" % n, literal and not from_parse, d["loc"],
             "is_admin is evaluated on %s" % ("a history started empty in this function" if literal and not from_parse else
                                              "the parsed definition that already contains the entry under test: a self-authored administrator entry (a key nobody added, or a disabled administrator re-enabling itself) authorises itself"))
        if not (literal and not from_parse):
            continue
        # the history grows only by entries that passed the test, or by the first entry of an empty history written by its own key
        sws = rights.decision_switches(b, d["block"])
        true_edges = {(sb, tt) for sb, tt, ft in sws if tt is not None}

        def true_edges_of(pred):
            """edges taken when a condition satisfying `pred` holds: the condition is the switch operand, or the only
            non-constant definition of the named bool the switch tests (`let x = a && c` leaves `false` on the other edge)"""
            out = set()
            for sb in b.live_blocks():
                t = b.blocks[sb]["t"]
                if t["k"] != "switch":
                    continue
                term = b.switch_term(sb, expand_vars=False)
                if term[0] == "discr":
                    continue
                for tg, vals in rights.switch_edges(b, sb):
                    atom, truth = mir.cond_atoms(term, vals)
                    if truth is not True:
                        continue
                    cands = [atom]
                    if atom[0] == "var" and len(atom) > 2 and b.locals[atom[2]] == "bool":
                        cands = [strip_refs(x) for x in b.var_defs(atom) if not (strip_refs(x)[0] == "const" and strip_refs(x)[1] is False)]
                    if cands and all(x[0] == "call" and pred(x) for x in cands):
                        out.add((sb, tg))
            return out
        empty_edges = true_edges_of(lambda x: x[1].endswith("::is_empty") and x[2] and field_path(x[2][0]).endswith(".admins") and mir.mentions(x[2][0], recv[1]))
        adds = [bi for bi, t in b.calls_to(r"Room::add_admin_user$") if mir.mentions(b.call_args(bi)[0], recv[1])]
        r = b.reachable(0, avoid_edges=true_edges | empty_edges)
        gated = bool(adds) and not any(x in r for x in adds)
        C.ob("R5", "history-extended-only-by-entitled-entries#%d" % n, gated, b.loc(adds[0]) if adds else b.loc(),
             "add_admin_user on the history is reachable only through the accepting edge of is_admin or the empty-history bootstrap: %s (%d extension site%s)" % (gated, len(adds), "" if len(adds) == 1 else "s"))
        # the bootstrap entry is written by the key it names
        def own(x):
            if not re.search(r"::eq$", x[1]) or len(x[2]) != 2:
                return False
            ps = [rp(b, y) for y in x[2]]
            return any(y.endswith("admin_nodes.[].node.verifying_key") for y in ps) and any(y.endswith(".verifying_key") and not y.endswith(".node.verifying_key") for y in ps)
        own_edges = true_edges_of(own)
        r2 = b.reachable(0, avoid_edges=true_edges | own_edges)
        boot = bool(own_edges) and bool(adds) and not any(x in r2 for x in adds)
        C.ob("R5", "bootstrap-is-self-authored#%d" % n, boot, b.loc(),
             "without the accepting edge of is_admin the history is extended only when the entry's author is the key the entry names: %s" % boot)
