"""C18 — every committed change is announced."""
import re
import mir
from mir import term_str, strip_refs, callee_name, field_path, full_path
from rules.c01 import arm_of

COMPUTE_MSG = "ComputeDailyLog"


def compute_sends(b):
    """blocks that request a log recomputation (send of DbMessage::ComputeDailyLog or compute_daily_log())"""
    out = []
    for bi, t in b.live_calls():
        name = callee_name(t)
        if name.endswith("GraphDatabaseService::compute_daily_log"):
            out.append(bi)
        elif name.endswith("Sender::send"):
            a = b.call_args(bi, expand_vars=True)
            if any(s[0] == "aggr" and s[3] == COMPUTE_MSG and s[2].endswith("DbMessage") for s in mir.subterms(a[1])):
                out.append(bi)
    return out


def run(P, C, tier):
    C.explanation = (
        "Static decision of the announcement chain: (1) every entry point that can have committed a write requests a log "
        "recomputation on every path to its exit, error exits included; (2) the handler of the recomputation result turns every "
        "recomputed entry into the data-changed event; (3) every replacement of a room definition in the rights table is "
        "followed, on every path, by the room-modified notification carrying that room. Loss in bounded broadcast channels "
        "(subscriber speed) is not decided.")
    C.rule("R1", "after a write was acknowledged (or batches may have been committed), every path to the function exit sends ComputeDailyLog")
    C.rule("R2", "in the DailyLogComputed arm every recomputed log entry reaches DataModification::add (unless its entity is unknown) and the event is sent; recompute adds every entry to the update")
    C.rule("R3", "each add_room in the authorisation actor is followed on every path by notify(RoomModified(same room))")
    # ---- R1 a: delete / mutate_raw
    for fn in ("GraphDatabaseService::delete::{closure#0}", "GraphDatabaseService::mutate_raw::{closure#0}"):
        try:
            b = P.body(fn)
        except mir.MissingAnchor as e:
            C.anchor_missing("R1", fn, e)
            continue
        C.saw(b)
        cs = compute_sends(b)
        # the acknowledgement: the `?` on the awaited reply, i.e. the closest `?` test that dominates the request
        ack = None
        if cs:
            for sb, vals, term in b.guards(cs[0], expand_vars=False):
                dv = mir.discr_variants(term, vals)
                if dv and dv[1] == ["Continue"] and ack is None:
                    t = b.blocks[sb]["t"]
                    table = dict(term[3])
                    for v, tg in t["targets"]:
                        if table.get(v) == "Continue":
                            ack = tg
                    # it must be the reply of the write request: the awaited value is a oneshot receiver
                    full = b.switch_term(sb, expand_vars=True)
                    if not any(x[0] == "call" and x[1].endswith("oneshot::channel") for x in mir.subterms(full)):
                        ack = None
        # a failed write committed nothing: edges taken only when the reply is an Err may skip the request
        skip = set()
        # the reply of the write: the variable that receives the awaited value of the oneshot channel (by definition, not by name)
        REPLY = set()
        for l, n, lty, leaf in b.named_locals():
            if leaf[0] == "var" and lty.startswith("std::result::Result<"):
                full = b.local_term(l, expand_vars=True)
                if any(x[0] == "await" for x in mir.subterms(full)) and any(x[0] == "call" and x[1].endswith("oneshot::channel") for x in mir.subterms(full)):
                    REPLY.add(n)
        for sb in sorted(b.live_blocks()):
            t = b.blocks[sb]["t"]
            if t["k"] != "switch":
                continue
            term = b.switch_term(sb, expand_vars=False)
            dv = None
            if term[0] == "discr" and field_path(term[1]) in REPLY:
                table = dict(term[3])
                for v, tg in t["targets"]:
                    if table.get(v) == "Err":
                        skip.add((sb, tg))
            atom, _ = mir.cond_atoms(term, [0])
            if atom[0] == "call" and atom[2] and field_path(atom[2][0]) in REPLY:
                for tg, vals in __import__("rules.rights", fromlist=["x"]).switch_edges(b, sb):
                    tr = mir.cond_atoms(term, vals)[1]
                    if (atom[1].endswith("::is_ok") and tr is False) or (atom[1].endswith("::is_err") and tr is True):
                        skip.add((sb, tg))
        ok = False
        if ack is not None and cs:
            r = b.reachable(ack, avoid_blocks=cs, avoid_edges=skip)
            ok = not (r & set(b.exits()))
        C.ob("R1", mir.short(P.owner_fn(b.id)), ok, b.loc(cs[0]) if cs else b.loc(), "every path from the received acknowledgement to the exit requests recomputation (%d request site)" % len(cs))
    # ---- R1 b: mutation_stream
    try:
        ms = [x for x in P.bodies.values() if x.id.startswith("database::graph_database::GraphDatabaseService::mutation_stream::") and x.kind.startswith("Coroutine")]
        ok = False
        for b in ms:
            C.saw(b)
            cs = compute_sends(b)
            sends = [bi for bi, t in b.calls_to(r"Sender::send$") if any(s[0] == "aggr" and s[3] == "MutateStream" for s in mir.subterms(b.call_args(bi, expand_vars=True)[1]))]
            if sends and cs:
                ok = all(b.must_pass(s, cs, b.exits()) for s in sends)
                C.ob("R1", "GraphDatabaseService::mutation_stream", ok, b.loc(cs[0]), "after the stream is closed a recomputation is requested on every path from a forwarded mutation to the task's end")
                # ordering: the request must come after the writes were acknowledged, otherwise the writer can run the
                # recomputation before the streamed mutations are written and nothing recomputes (announces) them later
                acked = False
                for c in cs:
                    # a reply awaited (outside the input loop) before the request: a receive that dominates the request
                    # and is not itself a loop header of the stream's input
                    for rb, rt in b.live_calls(awaits=True):
                        nme = callee_name(rt)
                        if ("Receiver" in nme and nme.endswith("::recv") or nme.endswith("oneshot::Receiver::poll")) and b.dominates(rb, c):
                            in_loop = rb in b.reach_after(rb)
                            if not in_loop:
                                acked = True
                C.ob("R1", "GraphDatabaseService::mutation_stream:ordered-after-write", acked, b.loc(cs[0]),
                     "the recomputation request of a closed stream is sent as soon as the last mutation was *forwarded* to the database actor; it is not ordered after the "
                     "acknowledgement of the writes (mutate_raw/delete await the reply first), so the writer can execute ComputeDailyLog before the streamed mutations are "
                     "written: their days stay marked and no data-changed event follows until an unrelated later write")
        if not ms:
            C.anchor_missing("R1", "mutation_stream", "no coroutine")
    except mir.MissingAnchor as e:
        C.anchor_missing("R1", "mutation_stream", e)
    # ---- R1 c: synchronise_room
    try:
        b = P.body("LocalPeerService::synchronise_room::{closure#0}")
        C.saw(b)
        cs = compute_sends(b)
        data = b.calls_to(r"LocalPeerService::synchronise_room_data$")
        ok = len(data) == 1 and bool(cs)
        det = "synchronise_room_data call sites: %d, recomputation requests: %d" % (len(data), len(cs))
        if ok:
            d = data[0][0]
            # the only edge allowed to skip the request: the boolean result "nothing changed" (Ok(false))
            false_edges = set()
            for sb in sorted(b.live_blocks()):
                t = b.blocks[sb]["t"]
                if t["k"] != "switch":
                    continue
                term = b.switch_term(sb, expand_vars=True)
                if term[0] == "discr":
                    continue
                if any(x[0] == "call" and x[3] == d for x in mir.subterms(term)):
                    for v, tg in t["targets"]:
                        atom, truth = mir.cond_atoms(term, [v])
                        if truth is False:
                            false_edges.add((sb, tg))
            r = b.reach_after(d, avoid_blocks=cs, avoid_edges=false_edges)
            leaks = sorted(x for x in r if x in set(b.exits()))
            ok = not leaks and bool(false_edges)
            det = ("after synchronise_room_data every path to the exit requests recomputation, except the `false` (nothing transferred) edge: %s"
                   " (a failure after some batches were committed must be announced too)" % (not leaks))
        C.ob("R1", "LocalPeerService::synchronise_room:error-path", ok, b.loc(data[0][0]) if data else b.loc(), det)
        # success path with changes
        if data and cs:
            C.ob("R1", "LocalPeerService::synchronise_room:success-path", all(b.dominates(data[0][0], c) for c in cs), b.loc(cs[0]), "recomputation requested after the data exchange")
    except mir.MissingAnchor as e:
        C.anchor_missing("R1", "synchronise_room", e)
    # ---- R1 d: the DB actor turns ComputeDailyLog into a writer message
    try:
        st = [x for x in P.bodies.values() if x.id.startswith("database::graph_database::GraphDatabaseService::start::") and x.kind.startswith("Coroutine") and x.calls_to(r"DataModification::add$")]
        if len(st) != 1:
            C.anchor_missing("R2", "db actor loop", "%d candidates" % len(st))
        else:
            a = st[0]
            C.saw(a)
            fw = False
            for bi, t in a.calls_to(r"BufferedDatabaseWriter::send$"):
                p = a.call_args(bi, expand_vars=True)[1]
                if any(s[0] == "aggr" and s[3] == "ComputeDailyLog" and s[2].endswith("WriteMessage") for s in mir.subterms(p)):
                    g = a.guards(bi)
                    fw = any((mir.discr_variants(term, vals) or (None, []))[1] == ["ComputeDailyLog"] for s, vals, term in g)
            C.ob("R1", "actor-forwards-request", fw, a.loc(), "DbMessage::ComputeDailyLog is forwarded to the writer as WriteMessage::ComputeDailyLog")
            # ---- R2
            adds = a.calls_to(r"DataModification::add$")
            ok = len(adds) == 1
            det = ""
            if ok:
                bi = adds[0][0]
                args = a.call_args(bi, expand_vars=True)
                paths = [full_path(a, x) for x in args[1:]]
                g = a.guards(bi, expand_vars=True)
                conds = []
                for s, vals, term in g:
                    dv = mir.discr_variants(term, vals)
                    atom, truth = mir.cond_atoms(term, vals)
                    if dv and "next" in term_str(dv[0]):
                        continue  # loop headers
                    if dv and dv[1] == ["DailyLogComputed"]:
                        continue
                    if dv and dv[1] == ["Ok"] and "update" in term_str(dv[0]) or (dv and dv[1] == ["Ok"]):
                        continue
                    if dv and dv[1] == ["Some"] and mir.has_call(dv[0], r"DataModel::name_for$"):
                        conds.append("name_for")
                        continue
                    if dv and dv[1] in (["Ready"], ["Some"]) and ("recv" in term_str(dv[0]) or "poll" in term_str(dv[0]).lower()):
                        continue
                    conds.append(term_str(term)[:60] + "=>" + str(vals))
                extra = [c for c in conds if c != "name_for"]
                ok = not extra and any("room_dates" in p for p in paths)
                det = "DataModification::add(%s) under conditions %s" % (paths, conds)
            C.ob("R2", "every-entry-announced", ok, a.loc(adds[0][0]) if adds else a.loc(), det or "no DataModification::add")
            # event sent after the loops
            ev = [bi for bi, t in a.calls_to(r"Sender.*::send$") if any(s[0] == "aggr" and s[3] == "DataChanged" for s in mir.subterms(a.call_args(bi, expand_vars=True)[1]))]
            ok = len(ev) == 1 and bool(adds) and adds[0][0] in a.live_blocks() and ev[0] in a.reach_after(adds[0][0])
            if ok:
                g = a.guards(ev[0])
                ok = any((mir.discr_variants(term, vals) or (None, []))[1] == ["Ok"] for s, vals, term in g)
            C.ob("R2", "event-sent", ok, a.loc(ev[0]) if ev else a.loc(), "EventServiceMessage::DataChanged(data_mod) is sent in the Ok arm after the entries were collected")
    except mir.MissingAnchor as e:
        C.anchor_missing("R2", "db actor", e)
    # ---- R3
    try:
        pm = P.body("AuthorisationService::process_message::{closure#0}")
        C.saw(pm)
        n = 0
        notifies = []
        for bi, t in pm.calls_to(r"EventService::notify$"):
            p = pm.call_args(bi)[1]
            for s in mir.subterms(p):
                if s[0] == "aggr" and s[3] == "RoomModified":
                    notifies.append((bi, s[4][0]))
        for bi, t in pm.calls_to(r"RoomAuthorisations::add_room$"):
            arm = arm_of(pm, bi)
            n += 1
            arg = pm.call_args(bi)[1]
            src = mir.strip(arg)
            cands = [nb for nb, payload in notifies if mir.strip(payload) == src and pm.dominates(bi, nb)]
            from rules.rights import enclosing_loop_header
            hdr = enclosing_loop_header(pm, bi)
            targets = set(pm.exits()) | ({hdr} if hdr is not None else set())
            # the arm's reply send also counts as "the end of handling this message"
            ok = bool(cands) and pm.must_pass(bi, cands, targets)
            C.ob("R3", "room-modified:" + arm, ok, pm.loc(bi), "add_room(%s) is followed on every path by notify(RoomModified(%s)): %d matching notification%s" % (term_str(arg), term_str(src), len(cands), "" if len(cands) == 1 else "s"))
        C.floor("R3", "add_room sites in the actor", n, 3)
    except mir.MissingAnchor as e:
        C.anchor_missing("R3", "process_message", e)

    # ---- R4 (shared with C16-R3): the definition that is announced is the one computed at commit time
    from rules import c16
    c16.r3_room_definitions(P, C, "R4")
