"""C03 — synchronisation converges (decided clause: the replacement decision is a strict total order)."""
import re
import mir
from mir import term_str, strip_refs, callee_name, field_path, full_path
from rules import rights

CMP_CALL = re.compile(r"::(lt|le|gt|ge|eq|ne)$")
BIN = {"Lt": "lt", "Le": "le", "Gt": "gt", "Ge": "ge", "Eq": "eq", "Ne": "ne"}


def truth_of(op, order):
    """order: -1 new<existing, 0 equal, 1 new>existing, for (new OP existing)"""
    return {"lt": order < 0, "le": order <= 0, "gt": order > 0, "ge": order >= 0, "eq": order == 0, "ne": order != 0}[op]


def _copy_root(body, t):
    """replace the root variable of a field path by the variable it is a plain copy / reborrow of (`let incoming = new;`,
    the parameter binding of an inlined helper); a variable bound to a computed value stays"""
    path = []
    u = t
    while u[0] in ("field", "deref", "ref"):
        if u[0] == "field":
            path.append(u[2])
        u = u[1]
    seen = set()
    while u[0] == "var" and len(u) > 2 and u[2] not in seen:
        seen.add(u[2])
        ds = body.var_defs(u)
        if len(ds) != 1:
            break
        d = ds[0]
        while d[0] in ("ref", "deref", "cast"):
            d = d[1]
        if d[0] in ("var", "param") and len(d) > 2 and not mir._is_loop_item(ds[0]):
            u = d
        else:
            break
    out = u
    for f in reversed(path):
        out = ("field", out, f)
    return out


def classify(term, NEW="new", OLD="existing", body=None):
    """(field, op, swapped) when the term compares new.<field> with existing.<field>; the two versions may be reached
    through copies (the parameters of a helper that was analysed inlined): roots are resolved with body.origin"""
    t = term
    if t[0] == "bin" and t[1] in BIN:
        op, a, b = BIN[t[1]], t[2], t[3]
    elif t[0] == "call" and CMP_CALL.search(t[1]) and len(t[2]) == 2:
        op, a, b = CMP_CALL.search(t[1]).group(1), t[2][0], t[2][1]
    else:
        return None
    if body is not None:
        a, b = _copy_root(body, a), _copy_root(body, b)
    pa, pb = field_path(a), field_path(b)
    fa, fb = pa.split(".")[-1], pb.split(".")[-1]
    if fa != fb:
        return None
    ra, rb = pa.split(".")[0], pb.split(".")[0]
    if ra == NEW and rb == OLD:
        return fa, op, False
    if ra == OLD and rb == NEW:
        return fa, op, True
    return None


def walk(b, start, case, stop, outcomes_re, N, limit=4000):
    """follow the CFG from `start` deciding every comparison of new.* with existing.* by `case`; booleans that hold the result
    of such a comparison (`let older = new.mdate < existing.mdate`, the return value of an inlined `fn is_superseded(..) -> bool`)
    and constants are tracked along the path.  Returns the set of outcome callee names met before `stop` blocks."""
    out = set()
    unknown = []
    seen = set()
    work = [(start, ())]
    succ = b.succs()

    def cmp_value(t):
        t0 = t
        neg = False
        while t0[0] == "un" and t0[1] == "Not":
            t0 = t0[2]
            neg = not neg
        while t0[0] in ("ref", "deref"):
            t0 = t0[1]
        cl = classify(t0, N["new"], N["old"], b)
        if cl is None:
            # lexicographic comparison of tuples: `(new.mdate, &new.signature) <= (old.mdate, &old.signature)`
            op_ = a_ = b_ = None
            if t0[0] == "bin" and t0[1] in BIN:
                op_, a_, b_ = BIN[t0[1]], t0[2], t0[3]
            elif t0[0] == "call" and CMP_CALL.search(t0[1]) and len(t0[2]) == 2:
                op_, a_, b_ = CMP_CALL.search(t0[1]).group(1), t0[2][0], t0[2][1]
            if op_ is not None:
                def tup(z):
                    z = strip_refs(z)
                    for _ in range(4):
                        while z[0] in ("ref", "deref"):
                            z = strip_refs(z[1])
                        if z[0] == "var" and len(z) > 2:
                            ds_ = b.var_defs(z)
                            if len(ds_) == 1:
                                z = strip_refs(ds_[0])
                                continue
                        break
                    return z if z[0] == "aggr" and z[1] == "tuple" else None
                ta_, tb_ = tup(a_), tup(b_)
                if ta_ is not None and tb_ is not None and len(ta_[4]) == len(tb_[4]) and ta_[4]:
                    order = 0
                    for ca, cb in zip(ta_[4], tb_[4]):
                        c1 = classify(("bin", "Lt", strip_refs(ca), strip_refs(cb)), N["new"], N["old"], b)
                        if c1 is None or c1[0] not in case:
                            return None
                        o1 = -case[c1[0]] if c1[2] else case[c1[0]]
                        if o1 != 0:
                            order = o1
                            break
                    v = truth_of(op_, order)
                    return (not v) if neg else v
            return None
        if cl[0] not in case:
            return None
        f, op, swapped = cl
        v = truth_of(op, -case[f] if swapped else case[f])
        return (not v) if neg else v

    while work and limit > 0:
        limit -= 1
        x, stt = work.pop()
        if (x, stt) in seen or x in stop:
            continue
        seen.add((x, stt))
        st = dict(stt)
        bl = b.blocks[x]
        for si, s_ in enumerate(bl["s"]):
            lhs = s_["lhs"]
            if len(lhs) != 1:
                st.pop(lhs[0], None)
                continue
            rv = s_["rv"]
            val = None
            if rv["r"] == "use":
                o = rv["o"]
                if "k" in o and o["k"].get("v") in (True, False) and o["k"].get("ty") == "bool":
                    val = o["k"]["v"]
                else:
                    q = o.get("c") or o.get("m")
                    if q and len(q) == 1 and q[0] in st:
                        val = st[q[0]]
            elif rv["r"] == "un" and rv["op"] == "Not":
                q = rv["o"].get("c") or rv["o"].get("m")
                if q and len(q) == 1 and q[0] in st:
                    val = not st[q[0]]
            if val is None and rv["r"] in ("bin", "un"):
                val = cmp_value(b.def_term(x, si, rv, 0))
            if val is None:
                st.pop(lhs[0], None)
            else:
                st[lhs[0]] = val
        t = bl["t"]
        if t["k"] == "call":
            n = callee_name(t)
            if re.search(outcomes_re, n) and mir.mentions(b.call_args(x)[0], N["ids"]):
                out.add(n.split("::")[-1])
                continue   # the decision is taken
            d = t["dest"]
            v = cmp_value(b.def_term(x, None, t, 0)) if len(d) == 1 else None
            if d:
                st.pop(d[0], None)
            if v is not None:
                st[d[0]] = v
        key = tuple(sorted(st.items()))
        if t["k"] == "switch" and len(succ[x]) > 1:
            dpl = t["d"].get("c") or t["d"].get("m")
            chosen = None
            if dpl and len(dpl) == 1 and dpl[0] in st:
                want = 1 if st[dpl[0]] else 0
                for tv, tg in t["targets"]:
                    if tv == want:
                        chosen = tg
                if chosen is None:
                    chosen = t["otherwise"]
            else:
                term = b.switch_term(x, expand_vars=False)
                for tg, vals in rights.switch_edges(b, x):
                    atom, tr = mir.cond_atoms(term, vals)
                    v = cmp_value(atom)
                    if v is None:
                        break
                    if v == tr:
                        chosen = tg
            if chosen is not None:
                work.append((chosen, key))
                continue
            unknown.append(x)
        for sx in succ[x]:
            work.append((sx, key))
    return out, unknown


def run(P, C, tier):
    C.explanation = (
        "Convergence over all histories and synchronisation orders is a statement about runtime contents and is NOT decided. "
        "One necessary clause is in the shape of the code: the decision which of two versions of a row wins touches the two "
        "versions only through comparisons of (modification date, signature), so it is a function of a finite set of "
        "orderings. The rule extracts those comparisons from the MIR of Node::filter_existing, enumerates the 3x3 orderings, "
        "follows the CFG under each and requires: the incoming version is fetched iff (mdate, signature) is "
        "lexicographically greater — a strict total order, identical on every peer and independent of arrival order; "
        "equal versions are never fetched (a further synchronisation transfers nothing).")
    C.rule("R1", "last-writer-wins is the strict lexicographic order on (mdate, signature): exhaustive over the 9 orderings")
    C.rule("R2", "the decision reads nothing else of the two versions (every branch between the lookup and the outcome is one of the classified comparisons)")
    C.rule("R3", "rows absent locally are always fetched; the comparison is made against the stored row with the same id")
    C.rule("R5", "in the history comparison every remote (day, entity) whose daily hash differs from the local one, or that is unknown locally, is exchanged: the only way to skip synchronise_day is the equal-hash edge")
    C.rule("R6", "the previous-version fields carried with a selected row (old_mdate, old_room_id, old_verifying_key, old_local_id, old_entity) all describe the STORED row")
    C.rule("R7", "replaying a day's deletion records is harmless (a day is re-applied whole whenever its hash differs): a record removes exactly the row/reference version it names "
                 "(a reference by src, entity, label, dest and creation date: one re-created later is not removed), and it is stored and marked on every path, so every member ends with the same deletion records")
    C.rule("R4", "the version that is stored is the version that won the comparison: the fetched row's (mdate, signature) is checked against the stored version (or the advertised identifier) before it replaces it")
    try:
        b = P.body("node::Node::filter_existing")
    except mir.MissingAnchor as e:
        C.anchor_missing("R1", "filter_existing", e)
        return
    C.saw(b)
    # the variables are identified by what they are, not by how they are spelled
    try:
        N = {"ids": b.the_local("the incoming identifiers", ty=r"HashSet<.*NodeIdentifier", param=True),
             "old": b.the_local("the stored version", aggr=r"NodeIdentifier$"),
             "new": b.the_local("the incoming version of the same row", call=r"HashSet::get$"),
             "row": b.the_local("the stored row", aggr=r"node::Node$"),
             "result": b.the_local("the rows to fetch", ty=r"^(std::vec::|alloc::vec::)?Vec<.*NodeToInsert", param=False)}
    except mir.MissingAnchor as e:
        C.anchor_missing("R1", "variables of filter_existing", e)
        return
    # start: the Some edge of node_ids.get(&existing)
    start = None
    for sb in sorted(b.live_blocks()):
        t = b.blocks[sb]["t"]
        if t["k"] == "switch":
            term = b.switch_term(sb, expand_vars=True)
            if term[0] == "discr" and mir.has_call(term[1], r"HashSet::get$") and mir.mentions(mir.has_call(term[1], r"HashSet::get$")[2][0], N["ids"]):
                table = dict(term[3])
                for v, tg in t["targets"]:
                    if table.get(v) == "Some":
                        start = tg
    if start is None:
        C.anchor_missing("R1", "lookup of the incoming identifier", "node_ids.get(&existing) not found")
        return
    hdrs = {bi for bi, t in b.live_calls() if callee_name(t).endswith("Rows::next")}
    all_unknown = set()
    n = 0
    for md in (-1, 0, 1):
        for sg in (-1, 0, 1):
            case = {"mdate": md, "signature": sg}
            got, unknown = walk(b, start, case, hdrs, r"HashSet::(remove|take)$", N)
            all_unknown |= set(unknown)
            want = "take" if (md > 0 or (md == 0 and sg > 0)) else "remove"
            names = {-1: "<", 0: "=", 1: ">"}
            n += 1
            C.ob("R1", "case:mdate%s,signature%s" % (names[md], names[sg]), got == {want}, b.loc(start),
                 "incoming mdate %s stored, incoming signature %s stored: outcome %s, required %s (%s)" % (
                     names[md], names[sg], sorted(got) or "none", want, "fetch incoming" if want == "take" else "keep stored"))
    C.extra["exhaustive"] = True
    C.floor("R1", "orderings enumerated", n, 9)
    C.ob("R2", "only-order-comparisons", not all_unknown, b.loc(start), "branches between the lookup and the outcome that are not comparisons of new.* with existing.*: %s" % sorted(b.loc(x) for x in all_unknown))
    # R3: absent rows: the drain loop pushes every remaining id
    drain = b.calls_to(r"HashSet::drain$")
    pushes = [bi for bi, t in b.calls_to(r"Vec::push$") if field_path(b.call_args(bi)[0]) == N["result"]]
    ok = len(drain) == 1 and any(bi in b.reach_after(drain[0][0]) for bi in pushes)
    C.ob("R3", "absent-rows-fetched", ok, b.loc(drain[0][0]) if drain else b.loc(), "identifiers not matched by a stored row are all returned for fetching")
    # existing is built from the stored row's (id, mdate, _signature)
    ok = False
    for bi in b.live_blocks():
        for si, st in enumerate(b.blocks[bi]["s"]):
            rv = st["rv"]
            if rv["r"] == "aggr" and rv.get("adt", "").endswith("NodeIdentifier"):
                t = b.def_term(bi, si, rv, 0)
                fields = dict(zip(t[5], [field_path(x) for x in t[4]]))
                ok = fields.get("id", "") == N["row"] + ".id" and fields.get("mdate", "") == N["row"] + ".mdate" and fields.get("signature", "") == N["row"] + "._signature"
    C.ob("R3", "compared-with-stored-version", ok, b.loc(), "`existing` is (id, mdate, _signature) of the stored row")
    # NodeIdentifier equality/hash is by id only (so get(&existing) finds the incoming version of the same row)
    ni = [im for im in P.impls if im["self"].endswith("NodeIdentifier") and im["trait"] in ("std::cmp::PartialEq", "std::hash::Hash")]
    C.ob("R3", "identifier-keyed-by-id", len(ni) == 2, "", "NodeIdentifier has hand-written PartialEq and Hash (keyed by id): %s" % [im["trait"] for im in ni], nontrivial=False)
    for im in ni:
        for it in im["items"]:
            fb = P.bodies.get(it)
            if fb is None:
                continue
            C.saw(fb)
            used = set()
            for bi in fb.live_blocks():
                for st in fb.blocks[bi]["s"]:
                    pass
            txt = " ".join(term_str(fb.def_term(bi, None, t, 0)) for bi, t in fb.live_calls())
            C.ob("R3", "identifier-keyed-by-id:" + im["trait"].split("::")[-1], ".id" in txt and "mdate" not in txt and "signature" not in txt, fb.loc(), "uses the id only: %s" % txt[:80])

    # ---- R4: the row delivered by the peer for an identifier is not necessarily the advertised version
    try:
        sd = P.body("LocalPeerService::synchronise_day::{closure#0}")
        C.saw(sd)
        pushes = [bi for bi, t in sd.calls_to(r"Vec::push$") if re.search(r"Vec<.*NodeToInsert", sd.root_type(sd.call_args(bi)[0]))]
        checked = 0
        for pb in pushes:
            for s_, vals, term in sd.guards(pb, expand_vars=True):
                atom, truth = mir.cond_atoms(term, vals)
                txt = term_str(atom)
                if atom[0] in ("bin", "call") and ("mdate" in txt or "signature" in txt) and ("old_mdate" in txt or "nti" in txt or "NodeIdentifier" in txt):
                    checked += 1
        also = False
        for fn in ("GraphDatabase::add_nodes::{closure#0}", "RoomAuthorisations::validate_node"):
            fb = P.body(fn, required=False)
            if fb is None:
                continue
            for sb in fb.live_blocks():
                tt = fb.blocks[sb]["t"]
                if tt["k"] == "switch":
                    txt = term_str(fb.switch_term(sb, expand_vars=True))
                    if "old_mdate" in txt and "mdate" in txt.replace("old_mdate", ""):
                        also = True
        C.floor("R4", "row insertion sites of the day exchange", len(pushes), 2)
        C.ob("R4", "fetched-version-unchecked", (checked >= len(pushes) and pushes) or also, sd.loc(pushes[0]) if pushes else sd.loc(),
             "the rows returned for Query::Nodes are matched to the selected identifiers by id only; neither synchronise_day, add_nodes nor validate_node compares the delivered row's "
             "mdate/signature with the stored version (old_mdate) or with the advertised identifier: a peer can advertise a newer version and deliver an older validly signed one, which "
             "then replaces the newer stored row (the last-writer-wins order of R1 is bypassed)")
    except mir.MissingAnchor as e:
        C.anchor_missing("R4", "synchronise_day", e)

    # ---- R5: which days are exchanged
    try:
        sh = P.body("LocalPeerService::synchronise_history::{closure#0}")
        C.saw(sh)
        days = [bi for bi, t in sh.calls_to(r"LocalPeerService::synchronise_day$")]
        hdr = None
        for bi, t in sh.live_calls():
            if "d:ForLoop" in t["at"][1] and callee_name(t).endswith("::next"):
                it = mir.strip(sh.call_args(bi)[0])
                srcs = " ".join(term_str(x) for x in sh.var_defs(it)) if it[0] == "var" else term_str(it)
                srcs_, _ = mir.flow_sources(sh, it, r"^\b$")
                if any(x.endswith("query_multiple") for x in srcs_) and not any(x.endswith("get_room_log") for x in srcs_) and all(sh.dominates(bi, d) for d in days):
                    hdr = bi
        ok = hdr is not None and len(days) >= 3
        det = "loop over the remote log not found"
        if ok:
            item = sh.find_locals(pred=lambda d: any(x[0] == "call" and x[3] == hdr for x in mir.subterms(d)))
            item = item[0] if len(item) == 1 else "?"
            room = sh.find_locals(ty=r"^\[u8; 16\]$|Uid$", arg=True)
            re_ = mir.result_edges(sh, hdr)
            entry = re_["ok"] if re_ else None
            skip = set()
            for sb in sorted(sh.live_blocks()):
                tt = sh.blocks[sb]["t"]
                if tt["k"] != "switch":
                    continue
                term = sh.switch_term(sb, expand_vars=False)
                atom, _ = mir.cond_atoms(term, [0])
                if atom[0] == "call" and atom[1].endswith("::eq") and len(atom[2]) == 2:
                    ps = sorted(field_path(x) for x in atom[2])
                    roots = sorted(p.split(".")[0] == item for p in ps)
                    if all(p.endswith(".daily_hash") for p in ps) and roots == [False, True]:
                        for tg, vals in rights.switch_edges(sh, sb):
                            if mir.cond_atoms(term, vals)[1] is True:
                                skip.add((sb, tg))
            r = sh.reachable(entry, avoid_blocks=set(days), avoid_edges=skip) if entry is not None else {hdr}
            ok = hdr not in r and bool(skip)
            det = "from the start of an iteration over the remote log, the next iteration is reachable without synchronise_day only through `local.daily_hash == remote.daily_hash`: %s (%d exchange sites)" % (ok, len(days))
            for d in days:
                a = sh.call_args(d)
                ps = [field_path(x) for x in a]
                okd = ps[0] in room and (item + ".entity") in ps[1] and ps[2] == item + ".date"
                C.ob("R5", "exchange-args#%d" % days.index(d), okd, sh.loc(d), "synchronise_day(room_id, remote.entity, remote.date): %s" % ps[:3])
        C.ob("R5", "differing-days-exchanged", ok, sh.loc(hdr) if hdr is not None else sh.loc(), det)
    except mir.MissingAnchor as e:
        C.anchor_missing("R5", "synchronise_history", e)

    # ---- R6: NodeToInsert.old_* describe the stored row
    want = {"old_local_id": N["row"] + "._local_id", "old_room_id": N["row"] + ".room_id", "old_mdate": N["row"] + ".mdate", "old_verifying_key": N["row"] + ".verifying_key", "old_entity": N["row"] + "._entity"}
    n = 0
    for bi in sorted(b.live_blocks()):
        for si, st in enumerate(b.blocks[bi]["s"]):
            rv = st["rv"]
            if rv["r"] == "aggr" and rv.get("adt") == "database::node::NodeToInsert":
                t = b.def_term(bi, si, rv, 0)
                f = dict(zip(t[5], t[4]))
                stored = any(field_path(x).startswith(N["row"] + ".") for x in t[4])
                if not stored:
                    continue   # the literal for rows that are absent locally
                n += 1
                for k, w in want.items():
                    if k not in f:
                        continue
                    v = f[k]
                    if v[0] == "aggr" and v[3] == "Some" and v[4]:
                        v = v[4][0]
                    got = field_path(v)
                    C.ob("R6", "previous-version:" + k, got == w, "%s:%d" % (b.file, st["at"][0]),
                         "%s := %s (the stored row's %s is %s): the lower bound of the reference exchange, the day to recompute, and the rights evaluation use it" % (k, got, k, w))
    C.floor("R6", "NodeToInsert literal for an existing row", n, 1)
    # ---- R7 (shared with C11-R3)
    from rules import c11
    c11.apply_deletions(P, C, "R7")
    # ---- R8
    r8_room_summary(P, C)
    from rules import c09 as _c09
    _c09.r10_window_open_ended(P, C, "R9")


def r8_room_summary(P, C):
    import sql
    C.rule("R8", "the room summary two peers compare before they skip the history exchange (RoomDefinitionLog: last date, daily hash, history hash) covers EVERY entity "
                 "of the room: _daily_log has one row per (room, entity, date), so a summary built from a single row of a statement that is not constrained to one "
                 "entity hides the changes of all other entities (a room with two entities never converges)")
    try:
        b = P.body("daily_log::RoomDefinitionLog::get")
        C.saw(b)
        n = 0
        for bi, callee, text, holes, term in sql.statements(b):
            if not text or "_daily_log" not in text:
                continue
            n += 1
            tx = sql.norm(text)
            one_entity = re.search(r"\bentity\s*=\s*\?", tx) is not None
            nexts = []
            for nb, nt in b.calls_to(r"Rows.*::next$"):
                recv = b.call_args(nb, expand_vars=True)[0]
                pc = mir.has_call(recv, r"::prepare(_cached)?$")
                if pc is not None and pc[3] == bi:
                    nexts.append(nb)
            looped = bool(nexts) and all(nb in b.reach_after(nb) for nb in nexts)
            C.ob("R8", "room-summary-covers-every-entity#%d" % (n - 1), one_entity or looped, b.loc(bi),
                 "statement over _daily_log %s; its rows are %s" % ("constrained to one entity" if one_entity else "returns a row per entity",
                                                                    "all consumed in a loop" if looped else "read ONCE (only the first entity's hashes are advertised and compared)"))
        C.floor("R8", "statements over _daily_log in RoomDefinitionLog::get", n, 1)
    except mir.MissingAnchor as e:
        C.anchor_missing("R8", "RoomDefinitionLog::get", e)
