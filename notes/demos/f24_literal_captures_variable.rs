// Demonstration for fix F24 (C04-R6). Put at src/database/f24_demo.rs, register `#[cfg(test)] mod f24_demo;` in
// src/database/mod.rs. Fails before the fix (the variable $name is bound to the literal "name"), passes after.
#[cfg(test)]
mod tests {
    use crate::database::query::PreparedQueries;
    use crate::database::query_language::{data_model_parser::DataModel, query_parser::QueryParser};

    #[test]
    fn literal_equal_to_a_variable_name_does_not_capture_the_variable() {
        let mut data_model = DataModel::new();
        data_model
            .update("{Person {name: String, nickname: String}}")
            .unwrap();
        let query = QueryParser::parse(
            r#"query q { Person(nickname = "name", name = $name) { name } }"#,
            &data_model,
        )
        .unwrap();
        let prepared = PreparedQueries::build(&query).unwrap();
        let q = &prepared.sql_queries[0];
        // two different values must use two placeholders: one internal (the literal), one for the variable
        assert_eq!(2, q.var_order.len(), "{}", q.sql_query);
    }
}
