// Demonstration for fix F25 (C05-R2 / C14 "no generated statement is rejected"). Put at src/database/f25_demo.rs,
// register `#[cfg(test)] mod f25_demo;` in src/database/mod.rs. Fails before the fix (SQLite rejects `... OFFSET 1`
// without LIMIT), passes after.
#[cfg(test)]
mod tests {
    use crate::database::query_language::parameter::Parameters;
    use crate::database::{
        query::{PreparedQueries, Query},
        query_language::{data_model_parser::DataModel, query_parser::QueryParser},
        sqlite_database::prepare_connection,
    };
    use rusqlite::Connection;
    use std::sync::Arc;

    #[test]
    fn skip_without_first_is_a_valid_query() {
        let mut data_model = DataModel::new();
        data_model.update("{Person {name: String}}").unwrap();
        let conn = Connection::open_in_memory().unwrap();
        prepare_connection(&conn).unwrap();
        let query_parser = QueryParser::parse(
            r#"query q { Person(order_by(name asc), skip 1) { name } }"#,
            &data_model,
        )
        .unwrap();
        let query = PreparedQueries::build(&query_parser).unwrap();
        let mut sql = Query {
            parameters: Parameters::new(),
            parser: Arc::new(query_parser),
            sql_queries: Arc::new(query),
        };
        let res = sql.read(&conn);
        assert!(res.is_ok(), "a query valid for the language must execute: {:?}", res.err());
    }
}
