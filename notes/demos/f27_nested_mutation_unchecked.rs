//! demonstration: a nested mutation under a parent that is only named (id, nothing modified) is not rights-checked
#[cfg(test)]
mod tests {
    use std::{fs, path::PathBuf};

    use crate::{
        configuration::Configuration,
        database::{
            graph_database::GraphDatabaseService,
            query_language::parameter::{Parameters, ParametersAdd},
        },
        event_service::EventService,
        security::{base64_encode, random32},
    };

    const DATA_PATH: &str = "test_data/database/kf_demo_c01/";

    #[tokio::test(flavor = "multi_thread")]
    async fn nested_update_under_an_unchanged_parent_needs_the_right() {
        let path: PathBuf = DATA_PATH.into();
        let _ = fs::remove_dir_all(&path);
        fs::create_dir_all(&path).unwrap();
        let data_model = "{ Person{ name:String, pets:[Pet] } Pet{ name:String } }";
        let (app, verifying_key, _) = GraphDatabaseService::start(
            "kf demo c01",
            data_model,
            &random32(),
            &random32(),
            path,
            &Configuration::default(),
            EventService::new(),
        )
        .await
        .unwrap();
        let user_id = base64_encode(&verifying_key);

        let mut param = Parameters::default();
        param.add("user_id", user_id.clone()).unwrap();
        let room = app
            .mutate_raw(
                r#"mutate mut {
                    sys.Room{
                        admin: [{ verif_key:$user_id }]
                        authorisations:[{
                            name:"admin"
                            rights:[
                                { entity:"Person" mutate_self:true mutate_all:true },
                                { entity:"Pet" mutate_self:true mutate_all:true }
                            ]
                        }]
                    }
                }"#,
                Some(param),
            )
            .await
            .unwrap();
        let room_insert = &room.mutate_entities[0];
        let room_id = base64_encode(&room_insert.node_to_mutate.id);
        let auth_id = base64_encode(&room_insert.sub_nodes.get("authorisations").unwrap()[0].node_to_mutate.id);

        let mut param = Parameters::default();
        param.add("room_id", room_id.clone()).unwrap();
        let created = app
            .mutate_raw(
                r#"mutate mut { Person{ room_id: $room_id name: "me" pets:[{name:"kiki"}] } }"#,
                Some(param),
            )
            .await
            .expect("can insert");
        let person = &created.mutate_entities[0];
        let person_id = base64_encode(&person.node_to_mutate.id);
        let pet_id = base64_encode(&person.sub_nodes.get("pets").unwrap()[0].node_to_mutate.id);

        // every right on Pet is withdrawn
        let mut param = Parameters::default();
        param.add("room_id", room_id.clone()).unwrap();
        param.add("auth_id", auth_id.clone()).unwrap();
        app.mutate_raw(
            r#"mutate mut {
                sys.Room{ id:$room_id
                    authorisations:[{ id:$auth_id rights:[{ entity:"Pet" mutate_self:false mutate_all:false }] }]
                }
            }"#,
            Some(param),
        )
        .await
        .expect("remove the rights on Pet");

        // a direct update of the pet is refused
        let mut param = Parameters::default();
        param.add("pet_id", pet_id.clone()).unwrap();
        app.mutate_raw(r#"mutate mut { Pet{ id:$pet_id name:"direct" } }"#, Some(param))
            .await
            .expect_err("no right on Pet any more");

        // the same update nested under its (unchanged) parent must be refused too
        let mut param = Parameters::default();
        param.add("person_id", person_id.clone()).unwrap();
        param.add("pet_id", pet_id.clone()).unwrap();
        let nested = app
            .mutate_raw(
                r#"mutate mut { Person{ id:$person_id pets:[{ id:$pet_id name:"nested" }] } }"#,
                Some(param),
            )
            .await;
        let result = app.query("query q{ Pet{ name } }", None).await.unwrap();
        assert!(nested.is_err(), "the nested update of a Pet was accepted without any right on Pet; stored: {}", result);
        assert!(result.contains("kiki"), "a refused operation leaves the database unchanged: {}", result);
    }
}
