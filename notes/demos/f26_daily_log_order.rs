//! demonstration: the daily log after the same rows written in two orders
use rusqlite::Connection;

use crate::database::daily_log::{DailyLogsUpdate, DailyMutations};
use crate::database::sqlite_database::prepare_connection;
use crate::security::Uid;

const DAY: i64 = 86_400_000;

fn insert_node(conn: &Connection, id: u8, room: &Uid, mdate: i64) {
    conn.execute(
        "INSERT INTO _node (id, room_id, cdate, mdate, _entity, _json, _binary, verifying_key, _signature) VALUES (?,?,?,?,?,NULL,NULL,?,?)",
        (vec![id; 16], room.to_vec(), mdate, mdate, "0", vec![1u8; 32], vec![id; 64]),
    )
    .unwrap();
}

fn mark_and_compute(conn: &Connection, room: &Uid, dates: &[i64]) {
    let mut m = DailyMutations::new();
    for d in dates {
        m.set_need_update(*room, &"0".to_string(), *d);
    }
    m.write(conn).unwrap();
    let mut upd = DailyLogsUpdate::default();
    upd.compute(conn).unwrap();
}

fn log(conn: &Connection) -> Vec<(i64, u32, Option<Vec<u8>>, Option<Vec<u8>>, bool)> {
    let mut stmt = conn
        .prepare("SELECT date, entry_number, daily_hash, history_hash, need_recompute FROM _daily_log ORDER BY room_id, entity, date")
        .unwrap();
    let rows = stmt
        .query_map([], |r| Ok((r.get(0)?, r.get(1)?, r.get(2)?, r.get(3)?, r.get(4)?)))
        .unwrap();
    rows.map(|r| r.unwrap()).collect()
}

#[test]
fn history_chain_does_not_depend_on_write_order() {
    let room: Uid = [7; 16];
    // instance A: the day-3 row is written first, the day-1 row later (e.g. an older row received from a peer)
    let a = Connection::open_in_memory().unwrap();
    prepare_connection(&a).unwrap();
    insert_node(&a, 3, &room, 3 * DAY + 5);
    mark_and_compute(&a, &room, &[3 * DAY + 5]);
    insert_node(&a, 1, &room, DAY + 5);
    mark_and_compute(&a, &room, &[DAY + 5]);

    // instance B: the same two rows, written in date order
    let b = Connection::open_in_memory().unwrap();
    prepare_connection(&b).unwrap();
    insert_node(&b, 1, &room, DAY + 5);
    mark_and_compute(&b, &room, &[DAY + 5]);
    insert_node(&b, 3, &room, 3 * DAY + 5);
    mark_and_compute(&b, &room, &[3 * DAY + 5]);

    // instance C: both at once
    let c = Connection::open_in_memory().unwrap();
    prepare_connection(&c).unwrap();
    insert_node(&c, 1, &room, DAY + 5);
    insert_node(&c, 3, &room, 3 * DAY + 5);
    mark_and_compute(&c, &room, &[DAY + 5, 3 * DAY + 5]);

    assert_eq!(log(&b), log(&c), "in-order vs batch");
    assert_eq!(log(&a), log(&b), "same rows, different write order: the logs (including the history hash) must be identical");
}
