// Demonstration for fix F23 (C09-R5 carried values). Put this file at src/database/f23_demo.rs and register it
// with `#[cfg(test)] mod f23_demo;` in src/database/mod.rs. It fails on the tree before the fix
// (history_hash of the incrementally recomputed day is NULL) and passes after it.
#[cfg(test)]
mod tests {
    use crate::database::daily_log::DailyLogsUpdate;
    use crate::database::sqlite_database::prepare_connection;
    use rusqlite::Connection;

    #[test]
    fn incremental_recompute_keeps_the_history_chain() {
        let conn = Connection::open_in_memory().unwrap();
        prepare_connection(&conn).unwrap();
        let room = [1u8; 16];
        let day: i64 = 86_400_000;
        // day 1 was computed earlier: it has a daily hash and a history hash and needs no recomputation
        conn.execute(
            "INSERT INTO _daily_log (room_id, entity, date, entry_number, daily_hash, history_hash, need_recompute) VALUES (?,?,?,?,?,?,0)",
            (&room, "1", day, 1, vec![7u8; 32], vec![7u8; 32]),
        )
        .unwrap();
        // day 2 has just been written: marked for recomputation
        conn.execute(
            "INSERT INTO _daily_log (room_id, entity, date, entry_number, daily_hash, history_hash, need_recompute) VALUES (?,?,?,0,NULL,NULL,1)",
            (&room, "1", 2 * day),
        )
        .unwrap();
        let mut update = DailyLogsUpdate::default();
        update.compute(&conn).unwrap();
        let history: Option<Vec<u8>> = conn
            .query_row("SELECT history_hash FROM _daily_log WHERE date = ?", [2 * day], |r| r.get(0))
            .unwrap();
        assert!(history.is_some(), "day 2 is chained to day 1: its history hash must not be NULL");
    }
}
